"""C04 — constraints hold and output is finite at every stopping point.

Monitor: exact feasibility invariant (no slack: proxes project exactly) and finiteness evaluated
  - at every hook-observed iterate of a traced run (end of each epoch / prox-Newton iteration / outer iteration,
    the return), i.e. at every point a smaller budget would return,
  - at the API boundary for budgets ending exactly on an Anderson extrapolation step (max_epochs in {7, 14, 21})
    and random budgets, from feasible warm starts on the boundary of the feasible set,
  - on estimators fitted with tiny budgets (coef_, dual_coef_, intercept_).
"""
import warnings
import numpy as np

from vlib import cases as K
from vlib import compose as C
from vlib.common import rng_for, want, small
from vlib.runner import digest

PROPERTY = "C04"
LEVEL = "exploration"
TECHNIQUE = "runtime monitoring: exact feasibility/finiteness invariant at every hook-observed stopping point and at budget-aligned API returns"
LEVEL_TEXT = ("Solvers and estimators with positivity / box constraints are run with every intermediate iterate observed "
              "through guarded hooks and with budgets that end exactly on extrapolation steps; every observed or "
              "returned coefficient vector must be exactly feasible and every returned number finite. Coordinate-prox "
              "solvers are also started from infeasible points (with null columns / groups) and must return feasible ones "
              "after one epoch.")
LEVEL_NOTE = "exact comparisons (w >= 0, 0 <= w <= C); hooks give copies of the iterates; problems n<=40, p<=20"
RULE = ("cases = (solver|estimator, datafit, constraint penalty, storage, intercept, strategy, warm start, budgets); "
        "non-trivial = at least one observed iterate has a coefficient at a bound and one strictly inside; distinct = "
        "digest(case spec)")
SLACK = {"feasibility": 0.0}
ASSUMPTIONS = ["feasible warm starts (generator-enforced)", "sklearn _validate_data shim for regression estimators"]
FLOOR = {"quick": 200, "thorough": 3000}
REPS = {"quick": 5, "thorough": 70}

POS = ["L1", "L1_plus_L2", "WeightedL1", "MCPenalty", "WeightedMCPenalty", "PositiveConstraint"]
CELLS = (
    [("AndersonCD", df, pen) for df in ("Quadratic", "Logistic", "Huber", "WeightedQuadratic") for pen in POS + ["IndicatorBox"]]
    + [("AndersonCD", "QuadraticSVC", "IndicatorBox")]
    + [("ProxNewton", df, pen) for df in ("Logistic", "Poisson", "Quadratic") for pen in POS + ["IndicatorBox"]]
    + [("GroupBCD", df, "WeightedGroupL2") for df in ("QuadraticGroup", "LogisticGroup")]
    + [("GroupProxNewton", "LogisticGroup", "WeightedGroupL2")]
    + [("GramCD", None, pen) for pen in ("L1", "L1_plus_L2", "WeightedL1", "MCPenalty", "PositiveConstraint")]
    + [("FISTA", df, pen) for df in ("Quadratic", "Logistic") for pen in ("L1", "WeightedL1", "IndicatorBox",
                                                                              "PositiveConstraint")]
)


def plan(tier, seed):
    shards = []
    by = {}
    for c in CELLS:
        by.setdefault((c[0], c[1]), []).append(c[2])
    for (solver, df), pens in by.items():
        for i in range(0, len(pens), 4):
            shards.append(dict(name="%s/%s/%d" % (solver, df, i // 4), solver=solver, datafit=df,
                               penalties=pens[i:i + 4], reps=REPS[tier]))
    shards.append(dict(name="estimators", solver="EST", datafit=None, penalties=["est"], reps=REPS[tier] * 2))
    return shards


def feasible(case, w):
    """exact feasibility of the penalised coefficients (intercept excluded)."""
    coef, _ = case.ref.split(w)
    k = case.ref_pen.kind
    if k == "box":
        return bool(np.all(coef >= 0) and np.all(coef <= case.alpha)), float(min(coef.min(), (case.alpha - coef).min()))
    return bool(np.all(coef >= 0)), float(coef.min())


def gen_spec(rng, solver, df, pen, seed, coords):
    info = K.SOLVER_INFO[solver]
    storage = str(rng.choice(["dense", "csc"])) if info["sparse"] else "dense"
    strategy = str(rng.choice(info["strategies"]))
    icpt = bool(rng.integers(0, 2)) and info["intercept"] and df not in ("QuadraticSVC", "Cox")
    n, p = int(rng.integers(10, 40)), int(rng.integers(3, 20))
    knobs = dict(tol=1e-12)
    if solver not in ("GramCD", "FISTA"):
        knobs["p0"] = int(rng.choice([1, 2, 10, p]))
    if solver == "GramCD":
        knobs.update(greedy_cd=False, use_acc=True)
    spec = dict(check="C04", seed=seed, coords=coords, solver=solver, datafit=df, penalty=pen, storage=storage,
                fit_intercept=icpt, strategy=strategy, n=n, p=p,
                xkind=str(rng.choice(["gauss", "ar", "shifted"])), rho=float(rng.choice([0.6, 0.97])),
                alpha_frac=float(rng.choice([0.005, 0.05, 0.3])), positive=True, knobs=knobs,
                zero_weights=bool(rng.integers(0, 2)),
                group_style=str(rng.choice(["contig", "perm"])), warm=str(rng.choice(["zero", "dense", "sparse"])))
    return spec


def run_shard(spec, emit):
    solver, df, seed = spec["solver"], spec["datafit"], spec["seed"]
    if solver == "EST":
        return _estimators(spec, emit)
    for pen in spec["penalties"]:
        for rep in range(spec["reps"]):
            cid = "%s/%s/%s/r%d" % (solver, df, pen, rep)
            if not want(spec, cid):
                continue
            rng = rng_for("C04", seed, solver, str(df), pen, rep)
            cs = gen_spec(rng, solver, df, pen, seed, [solver, str(df), pen, rep])
            try:
                run_case(emit, cid, cs, rng, rep == 0)
            except Exception:
                import traceback
                emit(dict(id=cid, cell="harness", status="inconclusive", obs=dict(tb=traceback.format_exc()[-1500:])))


def run_case(emit, cid, cs, rng, sample):
    case = K.Case(cs)
    base = dict(id=cid, cell=case.cell(), digest=digest(cs))
    info = K.SOLVER_INFO[case.solver_name]
    b_it, b_ep = (info["budget"] + (None,))[:2]
    w0, xw0 = case.start(cs["warm"])
    if cs["warm"] != "zero" and case.ref_pen.kind == "box":
        # put some coordinates exactly on the bounds
        k = len(w0) - int(case.fit_intercept)
        idx = rng.choice(k, max(1, k // 3), replace=False)
        w0[idx] = rng.choice([0.0, case.alpha], size=len(idx))
        xw0 = case.Xd @ w0[:k] + (w0[-1] if case.fit_intercept else 0.0)
    viols, counts = [], dict(iterates_checked=0, boundary_returns=0)
    at_bound = inside = False

    def check_point(w, where):
        nonlocal at_bound, inside
        counts["iterates_checked"] += 1
        fin = bool(np.all(np.isfinite(w)))
        ok, margin = feasible(case, w) if fin else (False, np.nan)
        coef, _ = case.ref.split(w)
        if fin:
            at_bound = at_bound or bool(np.any(coef == 0) or (case.ref_pen.kind == "box" and np.any(coef == case.alpha)))
            inside = inside or bool(np.any(coef > 0))
        if not fin or not ok:
            viols.append(dict(mechanism="infeasible-iterate" if fin else "non-finite-iterate", where=where,
                              solver=case.solver_name, datafit=case.df_name, penalty=case.pen_name,
                              storage=case.storage, fit_intercept=case.fit_intercept, margin=margin,
                              detail="%s: min margin %r" % (where, margin)))

    # ---- traced long run: every intermediate stopping point
    budget = {b_it: 3}
    if b_ep:
        budget[b_ep] = 22
    if case.solver_name in ("GramCD", "FISTA"):
        budget = {b_it: 30}
    out = case.solve(w0, xw0, trace_kinds=("epoch", "outer_end", "return"), **budget)
    if out["exc"] is not None:
        emit(dict(base, status="refused", nontrivial=False, obs=dict(exc=repr(out["exc"])[:300], case=case.describe())))
        return
    for k, p in out["trace"].events:
        check_point(p["w"], "%s(t=%s,epoch=%s)" % (k, p.get("t"), p.get("epoch")))
    check_point(out["w"], "return(long run)")
    if not (np.all(np.isfinite(out["obj"])) and (np.isfinite(out["stop"]) or out["stop"] == np.inf)):
        viols.append(dict(mechanism="non-finite-diagnostics", solver=case.solver_name, datafit=case.df_name,
                          penalty=case.pen_name, where="return", detail="obj=%s stop=%r" % (small(out["obj"], 4), out["stop"])))
    # ---- boundary budgets aligned with the extrapolation period
    budgets = []
    if b_ep:
        for e in (7, 14, 21, int(rng.integers(1, 23))):
            budgets.append({b_it: 1, b_ep: e})
        budgets.append({b_it: 2, b_ep: 7})
    else:
        budgets = [{b_it: k} for k in (7, 14, 21, int(rng.integers(1, 23)))]
    for b2 in budgets:
        o2 = case.solve(w0, xw0, **b2)
        if o2["exc"] is None:
            counts["boundary_returns"] += 1
            check_point(o2["w"], "return(budget=%s)" % b2)
    # ---- infeasible warm start (what a warm_start refit gives after positive= was switched on, or a user's w_init):
    # the solvers that apply the penalty's prox coordinate by coordinate visit every non-zero coefficient in their first
    # epoch, so whatever they return after at least one epoch is feasible again — also on all-zero columns / groups,
    # where only the penalty acts.  (Prox-Newton steps are damped averages of the start and the prox point and promise
    # nothing from an infeasible start; they are not judged here.)
    if case.solver_name in ("AndersonCD", "GroupBCD", "MultiTaskBCD", "GramCD") and cs["warm"] != "zero":
        cs3 = dict(cs)
        if rng.random() < 0.6 and cs["p"] > 3:
            groupish = case.solver_name == "GroupBCD"
            if groupish:
                cs3["zero_group"] = str(rng.choice(["first", "middle", "last"]))
            else:
                cs3["mutate_X"] = str(rng.choice(["zero_col@first", "zero_col@middle", "zero_col@last", "zero_cols_many"]))
        case3 = K.Case(cs3)
        w3, _ = case3.start("dense")
        k = len(w3) - int(case3.fit_intercept)
        body = w3[:k]
        body *= np.where(rng.random(body.shape) < 0.6, -1.0, 1.0)        # most coefficients on the wrong side
        if case3.ref_pen.kind == "box":
            body *= 3.0                                                    # some above C as well
        wb, bb = case3.ref.split(w3)
        x3 = np.ascontiguousarray(case3.Xd @ wb + bb)
        for b3 in ([{b_it: 1, b_ep: 1}, {b_it: 1, b_ep: 7}, {b_it: 3, b_ep: 22}] if b_ep else [{b_it: 1}, {b_it: 7}, {b_it: 30}]):
            o3 = case3.solve(np.ascontiguousarray(w3.copy()), x3.copy(), **b3)
            if o3["exc"] is None:
                counts["infeasible_start_returns"] = counts.get("infeasible_start_returns", 0) + 1
                n_before = len(viols)
                case_, case = case, case3
                try:
                    check_point(o3["w"], "return(infeasible start, null=%s, budget=%s)" % (
                        cs3.get("mutate_X") or cs3.get("zero_group"), b3))
                finally:
                    case = case_
                for v in viols[n_before:]:
                    v.update(start="infeasible", null_columns=cs3.get("mutate_X") or cs3.get("zero_group"))
    rec = dict(base, nontrivial=bool(at_bound and inside), count=counts, hist={"warm": cs["warm"]})
    if viols:
        rec.update(status="violated", viol=viols[0],
                   obs=dict(case=case.describe(), n=len(viols), all=[v["detail"] for v in viols[:8]]))
    else:
        rec["status"] = "held"
    if sample:
        rec["sample"] = dict(case=case.describe(), iterates_checked=counts["iterates_checked"],
                             returned=small(out["w"], 12))
    emit(rec)


def _estimators(spec, emit):
    import skglm
    from skglm.estimators import Lasso, ElasticNet, WeightedLasso, MCPRegression, GroupLasso, LinearSVC
    seed = spec["seed"]
    names = ["Lasso", "ElasticNet", "WeightedLasso", "MCPRegression", "GroupLasso", "LinearSVC", "LinearSVC-refit"]
    for rep in range(spec["reps"]):
        for name in names:
            cid = "EST/%s/r%d" % (name, rep)
            if not want(spec, cid):
                continue
            rng = rng_for("C04", seed, "EST", name, rep)
            n, p = int(rng.integers(10, 40)), int(rng.integers(3, 16))
            X = C.make_X(rng, n, p, str(rng.choice(["gauss", "ar", "shifted"])), rho=0.9)
            icpt = bool(rng.integers(0, 2))
            budget = dict(max_iter=int(rng.choice([1, 2])), max_epochs=int(rng.choice([7, 14, 21, int(rng.integers(1, 23))])))
            tol = 1e-12
            base = dict(id=cid, cell="estimator|%s|icpt=%d" % (name, icpt), digest=digest(cid, seed))
            try:
                with warnings.catch_warnings():
                    warnings.simplefilter("ignore")
                    if name == "LinearSVC-refit":
                        # warm-started refit after shrinking the box: many coefficients start above the new bound
                        n2 = int(rng.integers(60, 140))
                        X = C.make_X(rng, n2, p, "gauss")
                        y = C.make_target(rng, X, "pm1", noise=2.0)
                        est = LinearSVC(C=1.0, tol=1e-8, warm_start=True, max_iter=50, max_epochs=2000).fit(X, y)
                        Cc = float(rng.choice([0.5, 0.25, 0.05]))
                        est.set_params(C=Cc, max_iter=int(rng.choice([1, 2, 3])), max_epochs=budget["max_epochs"])
                        est.fit(X, y)
                        vals = dict(coef=est.coef_, dual=est.dual_coef_, intercept=np.atleast_1d(est.intercept_))
                        ok = bool(np.all(est.dual_coef_ >= 0) and np.all(est.dual_coef_ <= Cc))
                        margin = float(min(est.dual_coef_.min(), (Cc - est.dual_coef_).min()))
                    elif name == "LinearSVC":
                        y = C.make_target(rng, X, "pm1")
                        Cc = float(10 ** rng.uniform(-1, 1))
                        est = LinearSVC(C=Cc, tol=tol, **budget).fit(X, y)
                        vals = dict(coef=est.coef_, dual=est.dual_coef_, intercept=np.atleast_1d(est.intercept_))
                        ok = bool(np.all(est.dual_coef_ >= 0) and np.all(est.dual_coef_ <= Cc))
                        margin = float(min(est.dual_coef_.min(), (Cc - est.dual_coef_).min()))
                    else:
                        y = C.make_target(rng, X, "real")
                        scale = float(np.max(np.abs(X.T @ (y - y.mean()))) / n)
                        alpha = float(rng.choice([0.005, 0.05, 0.3])) * scale
                        kw = dict(alpha=alpha, positive=True, fit_intercept=icpt, tol=tol, **budget)
                        if name == "Lasso":
                            est = Lasso(**kw)
                        elif name == "ElasticNet":
                            est = ElasticNet(l1_ratio=float(rng.choice([0.2, 0.8])), **kw)
                        elif name == "WeightedLasso":
                            est = WeightedLasso(weights=rng.uniform(0.2, 2, size=p), **kw)
                        elif name == "MCPRegression":
                            est = MCPRegression(gamma=float(rng.choice([3.0, 10.0])), **kw)
                        else:
                            gs = C.make_groups(rng, p)
                            est = GroupLasso(groups=[len(g) for g in gs], **kw)
                        est.fit(X, y)
                        vals = dict(coef=est.coef_, intercept=np.atleast_1d(est.intercept_))
                        ok = bool(np.all(est.coef_ >= 0))
                        margin = float(np.min(est.coef_))
            except Exception as e:
                emit(dict(base, status="refused", nontrivial=False, obs=dict(exc=repr(e)[:300])))
                continue
            fin = all(np.all(np.isfinite(v)) for v in vals.values())
            rec = dict(base, nontrivial=True, count=dict(estimator_fits=1), hist={"budget": str(budget)})
            if not (ok and fin):
                rec.update(status="violated",
                           viol=dict(mechanism="infeasible-estimator-output" if fin else "non-finite-estimator-output",
                                     estimator=name, fit_intercept=icpt, margin=margin,
                                     detail="%s budget=%s margin=%r" % (name, budget, margin)),
                           obs=dict(budget=budget, **{k: small(v, 12) for k, v in vals.items()}))
            else:
                rec["status"] = "held"
            if rep == 0:
                rec["sample"] = dict(estimator=name, budget=budget, coef=small(vals["coef"], 10))
            emit(rec)
