"""C15 — solutions transform correctly under symmetries of the problem.

Monitor: a problem and its image under a symmetry T (feature permutation carrying weights and group membership,
group permutation, task permutation, sample permutation, k-fold stacking, (y, alpha) -> (c y, c alpha) for quadratic
losses, column rescaling with inverse weight) are both solved by the real solver.  The directly computed solution w'
of the transformed problem must (i) meet the reference certificate of the transformed problem when it claims
convergence and (ii) for convex problems have the same reference objective as the mapped original solution T(w), up
to the margin implied by the measured certificates: |F'(w') - F'(T w)| <= max(cert'(w'), cert'(T w)) * |w' - T w|_1.
For non-convex penalties only (i) and the stationarity of T(w) are judged.
"""
import warnings
import numpy as np
from numpy.linalg import norm

from vlib import cases as K
from vlib import compose as C
from vlib import refmath as R
from vlib.common import rng_for, want, small
from vlib.runner import digest

PROPERTY = "C15"
LEVEL = "exploration"
TECHNIQUE = "runtime monitoring: metamorphic oracle (solve the problem and its symmetric image, compare through reference certificates and objectives)"
LEVEL_TEXT = ("Problems and their images under seven symmetry classes are solved by the real solvers; the image solution is "
              "certified against the reference model of the transformed problem and, in the convex case, its objective is "
              "compared with that of the mapped original solution within the certificate-implied margin.  Permutations "
              "move unpenalised features / the largest group to the array ends and use non-contiguous group index lists.  "
              "Column rescaling has a tight variant (tolerance expressed in the new units; unit-invariant solvers must then "
              "converge whenever the original does); families include Cox with tied times and the sparse-group penalty.")
LEVEL_NOTE = "trusted: vlib/refmath.py; the margin is a theorem for convex objectives, so it cannot fire on correct code"
RULE = ("cases = (solver, datafit, penalty, symmetry class, instance); non-trivial = both runs converged and the solution "
        "is not identically zero; distinct = digest(case)")
SLACK = {"objective_rounding_rel": 1e-11}
ASSUMPTIONS = ["symmetries are exact algebraic symmetries of the documented objectives"]
FLOOR = {"quick": 150, "thorough": 2500}
REPS = {"quick": 5, "thorough": 60}

FAMILIES = [
    ("AndersonCD", "Quadratic", "L1"), ("AndersonCD", "Quadratic", "WeightedL1"), ("AndersonCD", "Quadratic", "MCPenalty"),
    ("AndersonCD", "Logistic", "L1"), ("AndersonCD", "Huber", "WeightedL1"),
    ("ProxNewton", "Logistic", "WeightedL1"), ("ProxNewton", "Poisson", "L1"),
    ("GramCD", None, "L1"), ("GramCD", None, "WeightedL1"), ("FISTA", "Quadratic", "L1"),
    ("GroupBCD", "QuadraticGroup", "WeightedGroupL2"), ("GroupBCD", "LogisticGroup", "WeightedGroupL2"),
    ("GroupProxNewton", "LogisticGroup", "WeightedGroupL2"),
    ("MultiTaskBCD", "QuadraticMultiTask", "L2_1"),
    ("ProxNewton", "Cox", "L1"),                                    # tied times: the risk sets must not depend on row order
    ("GroupBCD", "QuadraticGroup", "WeightedL1GroupL2"),            # feature weights travel with the features
]
SYMS = ["feature_perm", "sample_perm", "stack", "target_scale", "column_scale", "group_perm", "task_perm"]


def plan(tier, seed):
    return [dict(name="%s/%s/%s" % f, family=list(f), reps=REPS[tier]) for f in FAMILIES]


def applicable(sym, solver, df, pen):
    if sym == "group_perm":
        return solver in ("GroupBCD", "GroupProxNewton")
    if sym == "task_perm":
        return solver == "MultiTaskBCD"
    if sym == "target_scale":
        return df in ("Quadratic", "QuadraticGroup", "QuadraticMultiTask", None) and pen != "MCPenalty"
    if sym == "column_scale":
        return pen in ("WeightedL1",)
    return True


def run_shard(spec, emit):
    solver, df, pen = spec["family"]
    seed = spec["seed"]
    for rep in range(spec["reps"]):
        for sym in SYMS:
            if not applicable(sym, solver, df, pen):
                continue
            cid = "%s/%s/%s/%s/r%d" % (solver, df, pen, sym, rep)
            if not want(spec, cid):
                continue
            rng = rng_for("C15", seed, solver, str(df), pen, sym, rep)
            try:
                one(emit, cid, solver, df, pen, sym, rng, rep == 0)
            except Exception:
                import traceback
                emit(dict(id=cid, cell="%s|%s|%s|%s" % (solver, df, pen, sym), status="inconclusive",
                          obs=dict(tb=traceback.format_exc()[-1800:])))


class Prob:
    """explicit problem description that can be transformed and handed both to the repository and the reference."""

    def __init__(self, X, y, alpha, weights=None, groups=None, gweights=None, sw=None):
        self.X, self.y, self.alpha = X, y, alpha
        self.weights, self.groups, self.gweights, self.sw = weights, groups, gweights, sw


def build(solver, df, pen, P_, storage, icpt, tol, rng_knobs):
    import skglm.datafits as D
    import skglm.penalties as PP
    import skglm.solvers as S
    X, y = P_.X, P_.y
    p = X.shape[1]
    kind = C.DF_KIND[df or "Quadratic"]
    extra = {}
    if df == "Huber":
        extra["delta"] = 1.0
    refdf = R.RefDatafit(kind, **extra)
    if pen == "L1":
        pu, refpen = PP.L1(P_.alpha), R.RefPenalty("l1", alpha=P_.alpha)
    elif pen == "WeightedL1":
        pu, refpen = PP.WeightedL1(P_.alpha, P_.weights.copy()), R.RefPenalty("wl1", alpha=P_.alpha, weights=P_.weights)
    elif pen == "MCPenalty":
        pu, refpen = PP.MCPenalty(P_.alpha, 3.0), R.RefPenalty("mcp", alpha=P_.alpha, gamma=3.0)
    elif pen == "WeightedGroupL2":
        ptr, ind = C.groups_to_ptr(P_.groups)
        pu = PP.WeightedGroupL2(P_.alpha, P_.gweights.copy(), ptr, ind)
        refpen = R.RefPenalty("group", alpha=P_.alpha, weights=P_.gweights, groups=P_.groups)
    elif pen == "WeightedL1GroupL2":
        ptr, ind = C.groups_to_ptr(P_.groups)
        pu = PP.WeightedL1GroupL2(P_.alpha, P_.gweights.copy(), P_.weights.copy(), ptr, ind)
        refpen = R.RefPenalty("sgroup", alpha=P_.alpha, weights_groups=np.asarray(P_.gweights, float),
                              weights_features=np.asarray(P_.weights, float), groups=P_.groups)
    else:
        pu, refpen = PP.L2_1(P_.alpha), R.RefPenalty("l21", alpha=P_.alpha)
    if df in ("QuadraticGroup", "LogisticGroup"):
        ptr, ind = C.groups_to_ptr(P_.groups)
        du = getattr(D, df)(ptr, ind)
    elif df == "Huber":
        du = D.Huber(1.0)
    elif df is None:
        du = None
    else:
        du = getattr(D, df)()
    Xin = C.to_storage(X, storage) if storage != "dense" else np.asfortranarray(X)
    dfc = None if du is None else C.compiled(du)
    if dfc is not None:
        if storage == "dense" and hasattr(dfc, "initialize"):
            dfc.initialize(Xin, y)
        elif storage != "dense" and hasattr(dfc, "initialize_sparse"):
            dfc.initialize_sparse(Xin.data, Xin.indptr, Xin.indices, y)
    kw = dict(tol=tol)
    kw.update(rng_knobs)
    if solver in ("AndersonCD", "ProxNewton", "GroupBCD", "GroupProxNewton", "MultiTaskBCD"):
        kw["fit_intercept"] = icpt
    sol = getattr(S, solver)(**kw)
    with warnings.catch_warnings():
        warnings.simplefilter("ignore")
        w, obj, stop = sol.solve(Xin, y, dfc, C.compiled(pu))
    real_icpt = icpt and solver not in ("GramCD", "FISTA")
    return np.asarray(w, float), float(stop), R.RefProblem(X, y, refdf, refpen, real_icpt)


# solvers whose steps are 1 / (curvature of one coordinate): invariant to the unit in which a column is expressed
SCALE_INVARIANT = ("AndersonCD", "GramCD", "ProxNewton", "MultiTaskBCD")


def one(emit, cid, solver, df, pen, sym, rng, sample):
    info = K.SOLVER_INFO[solver]
    n, p = int(rng.integers(14, 36)), int(rng.integers(4, 12))
    X = C.make_X(rng, n, p, str(rng.choice(["gauss", "ar"])), rho=0.6)
    tk = C.TARGET_KIND[df or "Quadratic"]
    T = int(rng.integers(2, 4))
    y = C.make_target(rng, X, tk, n_tasks=T)
    icpt = bool(rng.integers(0, 2)) and info["intercept"] and df != "Cox"
    storage = str(rng.choice(["dense", "csc"])) if (info["sparse"] and not (solver == "GroupBCD" and df == "LogisticGroup")) else "dense"
    tol = 1e-9 if solver != "FISTA" else 1e-7
    refdf = R.RefDatafit(C.DF_KIND[df or "Quadratic"], **({"delta": 1.0} if df == "Huber" else {}))
    scale = C.ref_alpha_scale(X, y, refdf, icpt and solver not in ("GramCD", "FISTA"))
    alpha = float(rng.choice([0.05, 0.2, 0.5])) * scale
    wts = rng.uniform(0.4, 2.0, size=p)
    if pen == "WeightedL1" and rng.random() < 0.6:
        wts[rng.choice(p, max(1, p // 4), replace=False)] = 0.0         # unpenalised features
    groups = C.make_groups(rng, p, style=str(rng.choice(["contig", "perm", "trap"])))
    gw = rng.uniform(0.4, 2.0, size=len(groups))
    knobs = {}
    if solver in ("AndersonCD", "ProxNewton", "GroupBCD", "GroupProxNewton", "MultiTaskBCD"):
        knobs["p0"] = int(rng.choice([1, 2, 10]))
    if solver in ("AndersonCD", "GroupBCD", "MultiTaskBCD"):
        knobs["max_epochs"] = 5000
    knobs["max_iter"] = {"FISTA": 20000, "GramCD": 10000}.get(solver, 300)
    if pen == "WeightedL1GroupL2":
        knobs["ws_strategy"] = "fixpoint"
    P0 = Prob(X, y, alpha, wts, groups, gw)
    tol0 = tol1 = tol
    tight = False
    # ------------------------------------------------------------------ transformation
    if sym == "feature_perm":
        perm = rng.permutation(p)
        if pen == "WeightedL1" and np.any(wts == 0):
            # move the unpenalised features to the ends
            zero = np.where(wts == 0)[0]
            rest = np.array([j for j in rng.permutation(p) if j not in set(zero)], int)
            half = len(zero) // 2
            perm = np.r_[zero[:half], rest, zero[half:]].astype(int)
        inv = np.argsort(perm)
        P1 = Prob(np.asfortranarray(X[:, perm]), y, alpha, wts[perm], [np.array([inv[j] for j in G]) for G in groups], gw)
        mapw = lambda w: w[perm] if w.ndim == 1 else w[perm]  # noqa
    elif sym == "group_perm":
        order = np.argsort([-len(G) for G in groups])            # largest group first ...
        gp = np.r_[order[1:], order[:1]]                           # ... moved to the end
        P1 = Prob(X, y, alpha, wts, [groups[i] for i in gp], gw[gp])
        mapw = lambda w: w  # noqa
    elif sym == "task_perm":
        tp = rng.permutation(y.shape[1])
        P1 = Prob(X, np.asfortranarray(y[:, tp]), alpha, wts, groups, gw)
        mapw = lambda w: w[:, tp]  # noqa
    elif sym == "sample_perm":
        sp_ = rng.permutation(n)
        P1 = Prob(np.asfortranarray(X[sp_]), np.asfortranarray(y[sp_]), alpha, wts, groups, gw)
        mapw = lambda w: w  # noqa
    elif sym == "stack":
        k = int(rng.integers(2, 4))
        P1 = Prob(np.asfortranarray(np.vstack([X] * k)), np.asfortranarray(np.concatenate([y] * k)), alpha, wts, groups, gw)
        mapw = lambda w: w  # noqa
    elif sym == "target_scale":
        c = float(rng.choice([0.01, 7.0, 300.0]))
        P1 = Prob(X, y * c, alpha * c, wts, groups, gw)
        mapw = lambda w: w * c  # noqa
    else:   # column_scale
        cs = 10 ** rng.uniform(-1.5, 1.5, size=p)
        r_ = [0.5, 0.1, 0.9][int(cid.rsplit("/r", 1)[1]) % 3]       # variants in rotation: tight, extreme unit, plain
        if r_ < 0.35:
            cs[int(rng.integers(0, p))] = 10.0 ** float(rng.choice([-6.0, -4.0, 4.0]))     # one feature in a very different unit
        elif r_ < 0.7 and solver in SCALE_INVARIANT:
            # "tight" variant.  A tol-certificate in the new units is cs_j times the one in the old units, so with the
            # same tol a feature in a tiny unit is not constrained at all and nothing about it can be observed.  Here one
            # feature is in a tiny unit, the others within a factor 3, and the transformed problem is solved to
            # tol * (tiny unit) while the original is solved to a quarter of that: coordinate-wise solvers take steps
            # 1/L_j and are invariant to the unit of a column, so the transformed run is never the harder one.
            cs = 10 ** rng.uniform(-0.5, 0.5, size=p)
            jt = int(rng.integers(0, p))
            cs[jt] = 10.0 ** float(rng.choice([-5.0, -4.0, -3.0]))
            tol = 1e-6
            tol1 = tol * float(cs[jt])
            tol0 = tol1 / 4
            tight = True
        P1 = Prob(np.asfortranarray(X * cs), y, alpha, wts * cs, groups, gw)
        mapw = lambda w: np.r_[w[:p] / cs, w[p:]]  # noqa
    cell = "%s|%s|%s|%s|%s" % (solver, df, pen, sym, storage)
    base = dict(id=cid, cell=cell, digest=digest(cid, small(X, 3)))
    common = dict(solver=solver, datafit=df, penalty=pen, symmetry=sym, storage=storage, fit_intercept=icpt)
    try:
        w0, s0, prob0 = build(solver, df, pen, P0, storage, icpt, tol0, knobs)
        w1, s1, prob1 = build(solver, df, pen, P1, storage, icpt, tol1, knobs)
    except Exception as e:
        emit(dict(base, status="violated", nontrivial=True,
                  viol=dict(common, mechanism="solve-raises", exc=type(e).__name__, detail=repr(e)[:300])))
        return
    real_icpt = prob0.fit_intercept

    def mapfull(w):
        if real_icpt:
            body, b = (w[:-1], w[-1:])
            mb = mapw(np.asarray(body))
            bb = b * (float(P1.y.ravel()[0] / P0.y.ravel()[0]) if sym == "target_scale" and P0.y.ravel()[0] != 0 else 1.0)
            if sym == "task_perm":
                bb = b[:, tp] if b.ndim == 2 else b
            return np.concatenate([mb, bb])
        return mapw(np.asarray(w))
    Tw = mapfull(w0)
    viols = []
    conv = s0 <= tol0 and s1 <= tol1
    if knobs.get("ws_strategy") == "fixpoint" and solver == "GroupBCD":
        # the run stops on the prox-gradient residual: measure its claim in that metric
        c1 = prob1.cert_fixpoint(w1, prob1.group_lipschitz())[0]
        cT = prob1.cert_fixpoint(Tw, prob1.group_lipschitz())[0]
    else:
        c1 = prob1.cert_subdiff(w1)[0]
        cT = prob1.cert_subdiff(Tw)[0]
    gs = 1e-10 * (1 + float(np.max(np.abs(prob1.gradient(w1))))) + prob1.dot_error_bound(w1)
    if s1 <= tol1 and solver != "FISTA" and not R.leq(c1, tol1 * (1 + 1e-6) + gs, rel=0.0):
        viols.append(dict(common, mechanism="transformed-problem-solution-fails-certificate", cert=c1, tol=tol1,
                          detail="stop=%.3g <= tol but reference violation on the transformed problem = %.3g" % (s1, c1)))
    for which, st_, tl_ in (("original", s0, tol0), ("transformed", s1, tol1)):
        if tight and (which == "original" or not s0 <= tol0):
            continue        # tight variant: only "the original converges at tol0 but its image does not at 4 tol0" is judged
        if not st_ <= tl_ and solver != "FISTA":
            # bounded progress: both are small problems with budgets far above what they need; a symmetric image
            # that cannot be solved while the original can (or vice versa) is not "the same problem"
            viols.append(dict(common, mechanism="does-not-converge-within-budget", which=which, stop=float(st_),
                              tight=tight,
                              detail="%s problem: stop_crit=%.3g > tol=%g after the generous budget (other side: %.3g)" % (
                                  which, st_, tl_, s1 if which == "original" else s0)))
    if conv:
        F1, FT = prob1.objective(w1), prob1.objective(Tw)
        if prob1.pen.convex:
            ms = max(c1, cT)
            if knobs.get("ws_strategy") == "fixpoint" and solver == "GroupBCD":
                # the subgradient inequality needs the subdifferential distance: residual x largest block curvature
                ms = ms * float(np.max(prob1.group_lipschitz())) * 1.01
            margin = ms * float(np.abs(w1 - Tw).sum()) * 1.01 + SLACK["objective_rounding_rel"] * (1 + abs(F1))
            if not abs(F1 - FT) <= margin:
                viols.append(dict(common, mechanism="solution-does-not-transform-with-the-problem", gap=float(abs(F1 - FT)),
                                  margin=margin,
                                  detail="F'(w')=%.12g, F'(T w)=%.12g, certified margin %.3g (certs %.3g / %.3g)" % (
                                      F1, FT, margin, c1, cT)))
    rec = dict(base, nontrivial=bool(conv and np.any(w1 != 0)), count=dict(pairs=1, converged_pairs=int(conv)),
               hist={"symmetry": sym + ("/tight" if tight else "")})
    if viols:
        rec.update(status="violated", viol=viols[0], viols=viols,
                   obs=dict(n=n, p=p, alpha=alpha, weights=small(wts, 12), groups=[g.tolist() for g in groups],
                            stop=[s0, s1], w_orig=small(w0, 14), w_direct=small(w1, 14), w_mapped=small(Tw, 14)))
    else:
        rec["status"] = "held"
    if sample:
        rec["sample"] = dict(common, stop_original=s0, stop_transformed=s1, cert_transformed=c1, cert_mapped=cT)
    emit(rec)
