"""C09 — step-size constants are valid curvature bounds.

Monitor: get_lipschitz[_sparse], group constants, get_global_lipschitz[_sparse] and raw_hessian of every compiled
datafit are called on generated (X, y) and compared with the exact curvature computed by the reference model
(lambda_max of X_B^T D X_B with D the supremum of the reference second derivative); array lengths must equal the
number of units they are indexed by; a majorisation (descent) test with step 1/L complements the algebra;
diagonal Hessians must equal / dominate the reference Hessian.
"""
import numpy as np
from numpy.linalg import norm, eigvalsh

from vlib import refmath as R
from vlib import compose as C
from vlib.common import rng_for, small, fmt_exc, sprinkle_empty_columns
from vlib.runner import digest

PROPERTY = "C09"
LEVEL = "exploration"
TECHNIQUE = "runtime monitoring: exact-curvature oracle (eigenvalues of the reference Hessian bound) + majorisation test on every compiled datafit"
LEVEL_TEXT = ("Every Lipschitz accessor and diagonal-Hessian accessor of every compiled datafit is executed on generated "
              "designs (any scaling, rank deficiency, zero columns, CSC, sample weights, unequal groups) and compared with "
              "the exact constant from an eigen-decomposition of the reference curvature bound: dense must equal it "
              "(1e-9), sparse power-method values must not exceed it and stay within 2e-2 below; a step 1/L must satisfy "
              "the majorisation inequality on the reference loss.")
LEVEL_NOTE = "trusted: vlib/refmath.py second derivatives (cross-checked by finite differences), numpy eigvalsh"
RULE = ("cases = (datafit, design instance, accessor/clause); designs: gaussian/AR(0.95)/scaled/shifted, n<p and n>p, "
        "zero columns, duplicated columns; non-trivial = design has at least one non-zero column; distinct = "
        "digest(datafit, clause, instance)")
SLACK = {"dense_rel": 1e-9, "sparse_power_below": 2e-2, "sparse_power_above": 1e-9, "majorisation_rel": 1e-9}
ASSUMPTIONS = ["curvature suprema: 1/n (quadratic, huber, multitask), sw/sum(sw), 1/(4n) (logistic), 1 (dual SVC)"]
FLOOR = {"quick": 1200, "thorough": 15000}
N_INST = {"quick": 16, "thorough": 200}

DATAFITS = ["Quadratic", "WeightedQuadratic", "Logistic", "QuadraticSVC", "Huber", "Poisson", "Gamma", "Cox",
            "QuadraticGroup", "LogisticGroup", "QuadraticMultiTask", "SqrtQuadratic"]


def plan(tier, seed):
    return [dict(name=n, n_inst=N_INST[tier]) for n in DATAFITS]


def _emit(emit, cid, cell, ok, name, clause, obs, sample=None, nontrivial=True):
    rec = dict(id=cid, cell=cell, nontrivial=bool(nontrivial), digest=digest(cid))
    if ok:
        rec["status"] = "held"
    else:
        rec.update(status="violated", viol=dict(mechanism=clause, datafit=name, accessor=cell.split(".")[1],
                                                detail=str({k: small(v, 5) for k, v in obs.items()})[:300]),
                   obs={k: small(v, 24) for k, v in obs.items()})
    if sample is not None:
        rec["sample"] = sample
    emit(rec)


def _exc(emit, cid, cell, name, e):
    emit(dict(id=cid, cell=cell, status="violated", nontrivial=True, digest=digest(cid),
              viol=dict(mechanism="accessor-raises", datafit=name, accessor=cell.split(".")[1],
                        exc=type(e).__name__, detail=fmt_exc(e)), obs=dict(exc=fmt_exc(e))))


def run_shard(spec, emit):
    name, seed = spec["name"], spec["seed"]
    for inst in range(spec["n_inst"]):
        rng = rng_for("C09", seed, name, inst)
        try:
            _instance(emit, name, rng, "%s/i%d" % (name, inst), inst == 0)
        except Exception:
            import traceback
            emit(dict(id="%s/i%d" % (name, inst), cell=name + ".harness", status="inconclusive",
                      obs=dict(tb=traceback.format_exc()[-1500:])))


def _instance(emit, name, rng, base, first):
    n = int(rng.integers(4, 25))
    p = int(rng.integers(1, 14))
    xkind = str(rng.choice(["gauss", "scaled", "shifted", "ar", "centered", "contrast"]))
    X = C.make_X(rng, n, p, xkind, rho=0.95, density=float(rng.choice([1.0, 0.4])))
    if rng.random() < 0.4:
        X = sprinkle_empty_columns(rng, X)
    if p > 2 and rng.random() < 0.3:
        X[:, 1] = X[:, 0]
    X = np.asfortranarray(X)
    groups = C.make_groups(rng, p, style=str(rng.choice(["contig", "perm", "trap"])))
    y = C.make_target(rng, X, C.TARGET_KIND[name], n_tasks=int(rng.integers(1, 4)))
    opts = {}
    if name == "WeightedQuadratic":
        sw = rng.uniform(0.05, 5.0, size=n)
        if rng.random() < 0.4:
            sw = rng.integers(0, 4, size=n).astype(float)
            sw[0] = max(sw[0], 1.0)
        opts["sw"] = sw
    df, ref, prm = C.make_datafit(name, rng, n, groups=groups, **opts)
    cdf = C.compiled(df)
    Xs = C.to_storage(X, "csc")
    data, indptr, indices = Xs.data, Xs.indptr, Xs.indices
    has = lambda m: hasattr(cdf, m)  # noqa
    nontriv = bool(np.any(X))
    if has("initialize"):
        cdf.initialize(X, y)
    c = ref.curv_sup(y, n)
    is_group = name in ("QuadraticGroup", "LogisticGroup")
    n_units = len(groups) if is_group else p
    sample = dict(datafit=name, n=n, p=p, design=xkind, params={k: small(v, 6) for k, v in prm.items()},
                  groups=[g.tolist() for g in groups] if is_group else None) if first else None

    # ---------------------------------------------------------------- per-unit constants
    L_ref = None
    if c is not None:
        if is_group:
            L_ref = np.array([eigvalsh((X[:, G] * c[:, None]).T @ X[:, G])[-1] if len(G) else 0.0 for G in groups])
        else:
            L_ref = c @ (X ** 2)
    L_used = None
    if has("get_lipschitz"):
        try:
            L = np.asarray(cdf.get_lipschitz(X, y), float)
            L_used = L
            ok_len = (L.shape == (n_units,))
            _emit(emit, base + "/len", name + ".get_lipschitz_length", ok_len, name,
                  "lipschitz-array-length-differs-from-number-of-units", dict(length=L.shape, units=n_units),
                  sample, nontriv)
            if ok_len and L_ref is not None:
                ok = bool(np.all(np.abs(L - L_ref) <= SLACK["dense_rel"] * (1e-300 + np.abs(L_ref))
                                 + 1e-13 * np.max(np.abs(L_ref) + 1e-300)))
                _emit(emit, base + "/dense", name + ".get_lipschitz", ok, name,
                      "dense-lipschitz-differs-from-exact-curvature", dict(got=L, ref=L_ref), None, nontriv)
        except Exception as e:
            _exc(emit, base + "/dense", name + ".get_lipschitz", name, e)
    if name == "LogisticGroup":
        # the constants the group solvers should use live in the documented `lipschitz` attribute
        try:
            Lg = np.asarray(cdf.lipschitz, float)
            ok = Lg.shape == (n_units,) and bool(np.all(np.abs(Lg - L_ref) <= 1e-9 * (1e-300 + np.abs(L_ref))
                                                        + 1e-13 * np.max(np.abs(L_ref) + 1e-300)))
            _emit(emit, base + "/attr", name + ".lipschitz_attribute", ok, name,
                  "group-lipschitz-attribute-differs-from-exact-curvature", dict(got=Lg, ref=L_ref), None, nontriv)
        except Exception as e:
            _exc(emit, base + "/attr", name + ".lipschitz_attribute", name, e)
    if has("get_lipschitz_sparse"):
        try:
            cs = C.compiled(df)
            if has("initialize_sparse"):
                cs.initialize_sparse(data, indptr, indices, y)
            Ls = np.asarray(cs.get_lipschitz_sparse(data, indptr, indices, y), float)
            ok_len = Ls.shape == (n_units,)
            ok = ok_len
            if is_group and not ok_len and Ls.shape == (p,) and c is not None:
                # an inherited coordinate-wise accessor on a group datafit (no group solver consumes it: there is
                # no gradient_g_sparse): judged as the coordinate-wise constants its length designates
                Lf = c @ (X ** 2)
                ok = bool(np.all(np.abs(Ls - Lf) <= 1e-9 * np.abs(Lf) + 1e-13 * (np.max(np.abs(Lf)) + 1e-300)))
            elif ok_len and L_ref is not None:
                scale = np.max(np.abs(L_ref)) + 1e-300
                if is_group:   # power method
                    ok = bool(np.all(Ls <= L_ref * (1 + SLACK["sparse_power_above"]) + 1e-12 * scale) and
                              np.all(Ls >= L_ref * (1 - SLACK["sparse_power_below"]) - 1e-12 * scale))
                else:
                    ok = bool(np.all(np.abs(Ls - L_ref) <= 1e-9 * np.abs(L_ref) + 1e-13 * scale))
            if is_group and not ok and name == "LogisticGroup" and Ls.shape == (p,) and c is not None:
                # p == n_groups (singleton groups): the inherited coordinate-wise accessor is still judged as such
                Lf = c @ (X ** 2)
                ok = bool(np.all(np.abs(Ls - Lf) <= 1e-9 * np.abs(Lf) + 1e-13 * (np.max(np.abs(Lf)) + 1e-300)))
            _emit(emit, base + "/sparse", name + ".get_lipschitz_sparse", ok, name,
                  "sparse-lipschitz-differs-from-exact-curvature", dict(got=Ls, ref=L_ref, units=n_units), None, nontriv)
        except Exception as e:
            _exc(emit, base + "/sparse", name + ".get_lipschitz_sparse", name, e)

    # ---------------------------------------------------------------- global constants
    Lg_ref = None
    if c is not None and name != "QuadraticMultiTask":
        Lg_ref = float(eigvalsh((X * c[:, None]).T @ X)[-1]) if p else 0.0
    for meth, sparse in (("get_global_lipschitz", False), ("get_global_lipschitz_sparse", True)):
        if not has(meth):
            continue
        try:
            if sparse and nontriv is False:
                continue
            if sparse and len(indices) == 0:
                continue
            Lg = float(cdf.get_global_lipschitz_sparse(data, indptr, indices, y)) if sparse else \
                float(cdf.get_global_lipschitz(X, y))
            if Lg_ref is not None:
                if sparse:
                    ok = (Lg <= Lg_ref * (1 + 1e-9) + 1e-300) and (Lg >= Lg_ref * (1 - SLACK["sparse_power_below"]))
                else:
                    ok = abs(Lg - Lg_ref) <= 1e-9 * abs(Lg_ref) + 1e-300
                _emit(emit, base + "/" + meth, name + "." + meth, bool(ok), name,
                      "global-lipschitz-differs-from-exact-curvature", dict(got=Lg, ref=Lg_ref, sparse=sparse), None,
                      nontriv)
            # majorisation with the global constant (valid for every datafit offering one, Cox included)
            if Lg > 0 and np.isfinite(Lg) and name != "QuadraticMultiTask":
                for t in range(3):
                    w = rng.standard_normal(p) * float(rng.choice([0.1, 1.0]))
                    if name == "Cox":
                        w *= 0.3
                    f0 = ref.full_value(X, y, w)
                    g = ref.grad_w(X, y, w)
                    f1 = ref.full_value(X, y, w - g / Lg)
                    slack = 1e-9 * (1 + abs(f0)) + (SLACK["sparse_power_below"] * (g @ g) / Lg if sparse else 0.0)
                    ok = f1 <= f0 - (g @ g) / (2 * Lg) + slack
                    _emit(emit, "%s/%s/maj%d" % (base, meth, t), name + "." + meth + "_majorisation", bool(ok), name,
                          "step-1/L-violates-majorisation", dict(f0=f0, f1=f1, L=Lg, g2=float(g @ g), sparse=sparse),
                          None, bool(np.any(g)))
        except Exception as e:
            _exc(emit, base + "/" + meth, name + "." + meth, name, e)

    # ---------------------------------------------------------------- majorisation per unit with the constants in use
    if L_used is not None and L_used.shape == (n_units,) and name != "QuadraticMultiTask":
        for t in range(3):
            w = rng.standard_normal(p) * float(rng.choice([0.1, 1.0, 5.0]))
            if name in ("Logistic", "LogisticGroup"):
                w *= 0.3
            f0 = ref.full_value(X, y, w)
            g = ref.grad_w(X, y, w)
            bad = []
            for u in range(n_units):
                idx = groups[u] if is_group else np.array([u])
                if L_used[u] <= 0:
                    continue
                w1 = w.copy()
                w1[idx] -= g[idx] / L_used[u]
                f1 = ref.full_value(X, y, w1)
                if not (f1 <= f0 - (g[idx] @ g[idx]) / (2 * L_used[u]) + 1e-9 * (1 + abs(f0))):
                    bad.append((u, float(f1 - f0)))
            _emit(emit, "%s/maj%d" % (base, t), name + ".get_lipschitz_majorisation", not bad, name,
                  "step-1/L-violates-majorisation", dict(bad=bad[:4], f0=f0), None, bool(np.any(g)))

    # ---------------------------------------------------------------- diagonal Hessian accessor
    if has("raw_hessian"):
        for t in range(3):
            w = rng.standard_normal(p) * float(rng.choice([0.1, 1.0]))
            z = X @ w
            if name in ("Poisson", "Gamma", "Cox"):
                z = z / max(1.0, np.max(np.abs(z)) / 3.0)
            if name == "SqrtQuadratic" and norm(y - z) < 1e-6:
                continue
            try:
                h = np.asarray(cdf.raw_hessian(y, np.ascontiguousarray(z)), float)
                if name in ("Cox", "SqrtQuadratic"):
                    H = ref.rawhess_full(y, z)
                    lam = eigvalsh(np.diag(h) - H)[0]
                    ok = lam >= -1e-6 * (1 + np.max(np.abs(H)))
                    _emit(emit, "%s/hess%d" % (base, t), name + ".raw_hessian_bound", bool(ok), name,
                          "diagonal-hessian-does-not-dominate", dict(min_eig=lam, h=h), None, True)
                else:
                    href = ref.rawhess_diag(y, z)
                    ok = bool(np.all(np.abs(h - href) <= 1e-9 * (1e-300 + np.abs(href)) + 1e-15))
                    _emit(emit, "%s/hess%d" % (base, t), name + ".raw_hessian", ok, name,
                          "diagonal-hessian-differs-from-second-derivative", dict(got=h, ref=href), None, True)
            except Exception as e:
                _exc(emit, "%s/hess%d" % (base, t), name + ".raw_hessian", name, e)
