"""C20 — compiled kernels stay inside their arrays (sanitizer).

Every case is executed three times in separate child processes: plain with NaN margins, plain with finite margins,
and with numba's array bounds checker (NUMBA_BOUNDSCHECK=1, set before numba is imported).  Violations: (a) an
IndexError / broadcasting error (or any exception the plain run does not raise) in the checked run; (b) the two
plain runs differ (bitwise: the result depends on memory outside the arrays), or converged checked and plain runs
differ beyond 1e-5 (the checked build is compiled differently, so unconverged trajectories may legitimately
diverge after a last-bit difference; the share of bitwise identical pairs is reported); (c) guard bands — w_init, Xw_init, y and the CSC data / indices / indptr arrays are views
into larger buffers whose margins are NaN / sentinel filled — modified after the call, or NaN appearing in the
output (an out-of-range read of the margins).
"""
import hashlib
import numpy as np
import scipy.sparse as sp

from vlib import cases as K
from vlib.common import rng_for, want, small
from vlib.runner import digest

PROPERTY = "C20"
LEVEL = "exploration"
DEATH_IS_VIOLATION = True
TECHNIQUE = "sanitizer: numba array bounds checking (NUMBA_BOUNDSCHECK=1) in a child process, differential comparison with the unchecked run, NaN/sentinel guard bands around every array passed in"
LEVEL_TEXT = ("All accepted solver x datafit x penalty compositions are executed on generated problems (intercept on/off, "
              "weighted penalties, group layouts, shapes that put the last feature / group / sample at the array end, "
              "working sets containing the last feature, warm starts) once under numba's bounds checker and once "
              "plain; any index/broadcast error, any output difference and any touched guard band is a violation.")
LEVEL_NOTE = ("bounds checking covers indexing inside njit code only; an over-read that stays inside the parent buffer of a "
              "view is caught by the checker but not by the guard bands; memory outside numba-indexed accesses is out "
              "of reach (valgrind rejected: DESIGN 2.4); cells using the random power method are compared with "
              "tolerance instead of bitwise")
RULE = ("cases = (solver, datafit, penalty, storage, intercept, strategy, shape class, warm start) executed as a "
        "(checked, plain) pair; non-trivial = both executions returned and at least one compiled kernel ran (an outer "
        "iteration was performed); distinct = digest(case spec)")
SLACK = {"margin_independence": "bitwise", "checked_vs_plain_converged_pairs_rel": 1e-5}
ASSUMPTIONS = ["NUMBA_BOUNDSCHECK=1 is honoured when set before numba import (self-validated by the setup self-test)"]
FLOOR = {"quick": 150, "thorough": 2500}
REPS = {"quick": 1, "thorough": 14}
SHARD_TIMEOUT = {"quick": 1500, "thorough": 5400}
PAD = 7


def plan(tier, seed):
    shards = []
    for solver, info in K.SOLVER_INFO.items():
        for df in info["datafits"]:
            pens = [p for p in info["penalties"]]
            if tier == "quick" and len(pens) > 4:
                # quick: a seeded sample of 4 penalties per (solver, datafit); thorough runs them all
                from vlib.common import rng_for
                r = rng_for("C20-plan", seed, solver, str(df))
                pens = [pens[i] for i in sorted(r.choice(len(pens), 4, replace=False))]
            size = 4 if solver in ("AndersonCD", "ProxNewton", "FISTA") else 8
            for i in range(0, len(pens), size):
                for mode in ("plain", "plain_alt", "checked"):
                    shards.append(dict(name="%s/%s/%d/%s" % (solver, df, i // size, mode), solver=solver, datafit=df,
                                       penalties=pens[i:i + size], reps=REPS[tier], mode=mode,
                                       pair="%s/%s/%d" % (solver, df, i // size),
                                       env={"NUMBA_BOUNDSCHECK": "1"} if mode == "checked" else {}))
    return shards


def gen_spec(rng, solver, df, pen, seed, coords, variant):
    info = K.SOLVER_INFO[solver]
    storage = ["dense", "csc"][variant % 2] if info["sparse"] else "dense"
    strategy = info["strategies"][(variant // 2) % len(info["strategies"])]
    if pen == "WeightedL1GroupL2":
        strategy = "fixpoint"
    icpt = bool((variant // 4) % 2) and info["intercept"] and df not in ("QuadraticSVC", "Cox")
    if not K.compatible(solver, df, pen, storage, icpt, strategy):
        storage = "dense"
        if not K.compatible(solver, df, pen, storage, icpt, strategy):
            return None
    p = int(rng.integers(3, 16))
    n = int(rng.integers(5, 20))
    knobs = dict(tol=1e-8)
    b_it, b_ep = (info["budget"] + (None,))[:2]
    knobs[b_it] = {"FISTA": 60, "LBFGS": 30, "GramCD": 40, "PDCD_WS": 8}.get(solver, 6)
    if b_ep:
        knobs[b_ep] = 25
    small_ws = bool(variant % 2 == 1) if solver != "GroupBCD" else bool(variant in (0, 3, 6, 7))
    if solver in ("AndersonCD", "ProxNewton", "GroupBCD", "GroupProxNewton", "MultiTaskBCD", "PDCD_WS"):
        # either a working set that is a strict, growing subset (p0=1 from a cold start: arrays restricted to the
        # working set are then indexed by positions, not ids) or one that contains everything incl. the last unit
        knobs["p0"] = 1 if small_ws else p + 3
    if solver == "GramCD":
        knobs["greedy_cd"] = bool(rng.integers(0, 2))
        knobs["use_acc"] = not knobs["greedy_cd"]
    return K.widen(rng, dict(check="C20", seed=seed, coords=coords, solver=solver, datafit=df, penalty=pen, storage=storage,
                fit_intercept=icpt, strategy=strategy, n=n, p=p, xkind=str(rng.choice(["gauss", "ar"])), rho=0.7,
                density=float(rng.choice([1.0, 0.6])), alpha_frac=float(rng.choice([0.05, 0.3])),
                positive=bool(rng.integers(0, 2)) if pen in K.POSFLAG + ["WeightedGroupL2"] else False,
                zero_weights=bool(rng.integers(0, 2)), knobs=knobs,
                group_style=str(rng.choice(["contig", "perm", "trap"])), n_tasks=int(rng.integers(1, 4)),
                # survival targets: all times distinct (every censored observation is then a time without any event),
                # tied, or tied in non-adjacent rows
                ties=[False, True, "nonadjacent"][variant % 3],
                censor_all=bool(df == "Cox" and variant % 8 == 6),        # no event at all (index arrays of events are empty)
                # empty columns (CSC) / all-zero columns, at the end of the feature axis more often than elsewhere
                mutate_X=[None, "zero_col@first", "zero_col@last", "zero_col@last", None, "zero_col@last", None, "zero_cols_many"][variant % 8]
                if p > 3 else None,
                warm=str(rng.choice(["cold", "zero"])) if small_ws else str(rng.choice(["cold", "dense", "sparse"]))),
                   prob=0.08, n_range=(20, 50), p_range=(40, 120), p0=(1, 2, 5), fracs=(0.1, 0.3))


def _guard(a, fill):
    """copy of `a` embedded in a larger buffer with filled margins; returns (view, buffer)."""
    a = np.ascontiguousarray(a)
    if a.ndim == 1:
        buf = np.full(a.shape[0] + 2 * PAD, fill, dtype=a.dtype)
        buf[PAD:PAD + a.shape[0]] = a
        return buf[PAD:PAD + a.shape[0]], buf
    buf = np.full((a.shape[0] + 2 * PAD,) + a.shape[1:], fill, dtype=a.dtype)
    buf[PAD:PAD + a.shape[0]] = a
    return buf[PAD:PAD + a.shape[0]], buf


def _margins_intact(view, buf, fill):
    m = np.concatenate([buf[:PAD].ravel(), buf[PAD + view.shape[0]:].ravel()])
    if isinstance(fill, float) and np.isnan(fill):
        return bool(np.all(np.isnan(m)))
    return bool(np.all(m == fill))


def run_shard(spec, emit):
    solver, df, seed, mode = spec["solver"], spec["datafit"], spec["seed"], spec["mode"]
    import os
    if mode == "checked":
        assert os.environ.get("NUMBA_BOUNDSCHECK") == "1"
    for pen in spec["penalties"]:
        for rep in range(spec["reps"]):
            for variant in (range(8) if spec["tier"] == "thorough" else (rep * 3 + 0, rep * 3 + 3, rep * 3 + 5, rep * 3 + 6)):
                variant = variant % 8
                cid = "%s/%s/%s/r%d/v%d" % (solver, df, pen, rep, variant)
                if not want(spec, cid):
                    continue
                rng = rng_for("C20", seed, solver, str(df), pen, rep, variant)
                cs = gen_spec(rng, solver, df, pen, seed, [solver, str(df), pen, rep, variant], variant)
                if cs is None:
                    continue
                emit(dict(id=cid, status="started", cell="%s|%s|%s" % (solver, df, pen),
                          coords=dict(solver=solver, datafit=df, penalty=pen, mode=mode)))
                try:
                    rec = run_case(cid, cs, mode)
                except Exception:
                    import traceback
                    rec = dict(id=cid, status="partial", mode=mode, harness_error=traceback.format_exc()[-1200:])
                emit(rec)


def run_case(cid, cs, mode):
    case = K.Case(cs)
    w0, xw0 = case.start(cs["warm"])
    guards = []
    # guard bands around every 1-D array we hand over; the alternative plain run uses different (finite, valid
    # looking) fills, so that any dependence of the result on the margins shows up as a difference
    FF = 1234.5 if mode == "plain_alt" else np.nan
    yv, ybuf = _guard(case.y, FF)
    case.y = yv
    guards.append(("y", yv, ybuf, FF))
    if sp.issparse(case.X):
        Xs = case.X
        IF = 0 if mode == "plain_alt" else np.iinfo(Xs.indices.dtype).max
        dv, dbuf = _guard(Xs.data, FF)
        iv, ibuf = _guard(Xs.indices, IF)
        pv, pbuf = _guard(Xs.indptr, IF)
        Xg = sp.csc_matrix(Xs.shape, dtype=Xs.dtype)
        Xg.data, Xg.indices, Xg.indptr = dv, iv, pv
        case.X = Xg
        guards += [("X.data", dv, dbuf, FF), ("X.indices", iv, ibuf, IF), ("X.indptr", pv, pbuf, IF)]
    df, pen = case.compiled()
    solver = case.make_solver()
    wv = xv = None
    if w0 is not None:
        wv, wbuf = _guard(w0, FF)
        xv, xbuf = _guard(xw0, FF)
        guards += [("w_init", wv, wbuf, FF), ("Xw_init", xv, xbuf, FF)]
    rec = dict(id=cid, status="partial", mode=mode, cell=case.cell(), spec_digest=digest(cs), desc=case.describe())
    import warnings
    try:
        with warnings.catch_warnings():
            warnings.simplefilter("ignore")
            if case.solver_name == "GramCD":
                w, obj, stop = solver.solve(case.X, case.y, None, pen, wv, xv)
            else:
                w, obj, stop = solver.solve(case.X, case.y, df, pen, wv, xv)
        w = np.asarray(w)
        obj = np.asarray(obj, float)
        rec.update(outcome="returned", w_hex=hashlib.sha1(np.ascontiguousarray(w).tobytes()).hexdigest(),
                   obj_hex=hashlib.sha1(obj.tobytes()).hexdigest(), stop=float(stop), n_obj=int(len(obj)),
                   w=np.asarray(w, float).ravel()[:40].tolist(), has_nan=bool(np.isnan(w).any() or np.isnan(obj).any()))
    except BaseException as e:   # noqa
        if isinstance(e, (KeyboardInterrupt, SystemExit)):
            raise
        rec.update(outcome="raised", exc=type(e).__name__, msg=str(e).replace("\n", " ")[:300])
    rec["guards_touched"] = [name for name, v, b, fill in guards if not _margins_intact(v, b, fill)]
    return rec


def post(results):
    runs, spec_of = {"plain": {}, "plain_alt": {}, "checked": {}}, {}
    for r in results:
        for rec in r["recs"]:
            if rec.get("status") != "partial":
                continue
            runs[rec.get("mode")][rec["id"]] = rec
            spec_of[rec["id"]] = r["spec"]
    out = []
    tol_knob = 1e-8
    for cid in sorted(set(runs["plain"]) | set(runs["checked"]) | set(runs["plain_alt"])):
        a, a2, b = runs["plain"].get(cid), runs["plain_alt"].get(cid), runs["checked"].get(cid)
        first = a or a2 or b
        base = dict(id=cid, cell=first.get("cell"), digest=first.get("spec_digest") or digest(cid))
        if a and a2 and b and "harness_error" not in a and "harness_error" not in a2 and \
                ("IndexError" in b.get("harness_error", "") or "out of bounds" in b.get("harness_error", "")):
            # the bounds checker fired before the solver was even called (datafit / penalty initialisation on the data),
            # while both plain runs went through: an out-of-bounds access all the same
            d_ = a.get("desc") or {}
            out.append(dict(base, status="violated", nontrivial=True,
                            viol=dict(solver=d_.get("solver"), datafit=d_.get("datafit"), penalty=d_.get("penalty"),
                                      storage=d_.get("storage"), fit_intercept=d_.get("fit_intercept"),
                                      strategy=d_.get("strategy"), mechanism="bounds-checked-run-raises", where="initialisation",
                                      detail="checked: IndexError while initialising the datafit on the data | plain: returned"),
                            obs=dict(case=d_, checked_error=b["harness_error"][-600:])))
            continue
        if any(x is None or "harness_error" in x for x in (a, a2, b)):
            out.append(dict(base, status="inconclusive", nontrivial=False,
                            obs=dict(errors=[(x or {}).get("harness_error", "missing" if x is None else None)
                                             for x in (a, a2, b)])))
            continue
        desc = a.get("desc") or {}
        common = dict(solver=desc.get("solver"), datafit=desc.get("datafit"), penalty=desc.get("penalty"),
                      storage=desc.get("storage"), fit_intercept=desc.get("fit_intercept"), strategy=desc.get("strategy"))
        viols = []
        if b["outcome"] == "raised" and (a["outcome"] != "raised" or a.get("exc") != b.get("exc")):
            viols.append(dict(common, mechanism="bounds-checked-run-raises", exc=b.get("exc"),
                              detail="checked: %s: %s | plain: %s" % (b.get("exc"), b.get("msg"), a.get("outcome"))))
        for nm, rr in (("plain", a), ("plain_alt", a2), ("checked", b)):
            if rr.get("guards_touched"):
                viols.append(dict(common, mechanism="guard-band-modified", arrays=rr["guards_touched"], run=nm,
                                  detail="%s run modified the margins of %s" % (nm, rr["guards_touched"])))
        nondet = desc.get("storage") != "dense" and ((desc.get("solver") == "GroupBCD" and desc.get("datafit") == "QuadraticGroup")
                                                      or desc.get("solver") == "FISTA")

        def bitwise(u, v):
            return u["w_hex"] == v["w_hex"] and u["obj_hex"] == v["obj_hex"] and (
                u["stop"] == v["stop"] or (u["stop"] != u["stop"] and v["stop"] != v["stop"]))
        bw_margin = bw_checked = False
        # (b1) the result must not depend on what lies outside the arrays: same build, different margins
        if a["outcome"] != a2["outcome"] or (a["outcome"] == "raised" and a.get("exc") != a2.get("exc")):
            viols.append(dict(common, mechanism="result-depends-on-memory-outside-arrays",
                              detail="outcome %s vs %s with different margin contents" % (a["outcome"], a2["outcome"])))
        elif a["outcome"] == "returned" and not nondet:
            bw_margin = bitwise(a, a2)
            if not bw_margin:
                viols.append(dict(common, mechanism="result-depends-on-memory-outside-arrays",
                                  detail="plain runs with NaN vs finite margins differ: stop %r vs %r, w %s vs %s" % (
                                      a["stop"], a2["stop"], small(a["w"], 4), small(a2["w"], 4))))
        # (b2) checked vs plain: differently compiled (last-bit differences can change working sets / line-search
        # decisions of unconverged runs), so only converged pairs are compared, with a tolerance
        if a["outcome"] == "returned" and b["outcome"] == "returned":
            bw_checked = bitwise(a, b)
            if not bw_checked and not nondet and a["stop"] <= tol_knob and b["stop"] <= tol_knob:
                wa, wb = np.array(a["w"]), np.array(b["w"])
                if not (wa.shape == wb.shape and np.allclose(wa, wb, rtol=1e-5, atol=1e-6 * (1 + np.max(np.abs(wa), initial=0)))):
                    viols.append(dict(common, mechanism="checked-and-plain-results-differ",
                                      detail="both converged: plain w=%s | checked w=%s" % (small(a["w"], 4), small(b["w"], 4))))
            if a.get("has_nan") or b.get("has_nan"):
                viols.append(dict(common, mechanism="nan-in-output(guard-band-read?)", detail="NaN in w / objective history"))
        rec = dict(base, nontrivial=bool(a["outcome"] == "returned" and b["outcome"] == "returned" and a["n_obj"] >= 1),
                   hist={"outcome": "%s/%s" % (a["outcome"], b["outcome"]), "nondeterministic_cell": nondet,
                         "size": "wide" if (desc.get("p") or 0) >= 40 else "small"},
                   count=dict(triples=1, margin_independent_bitwise=int(bw_margin), checked_equals_plain_bitwise=int(bw_checked)))
        if viols:
            rec.update(status="violated", viol=viols[0], viols=viols, obs=dict(case=desc, plain={k: a.get(k) for k in (
                "outcome", "exc", "msg", "stop", "n_obj")}, checked={k: b.get(k) for k in ("outcome", "exc", "msg", "stop", "n_obj")}),
                _spec=spec_of[cid])
        else:
            rec["status"] = "held" if a["outcome"] == "returned" else "refused"
        if cid.endswith("r0/v0"):
            rec["sample"] = dict(case=desc, plain_outcome=a["outcome"], checked_outcome=b["outcome"],
                                 identical_across_margins=bw_margin, checked_bitwise_equal=bw_checked, stop=a.get("stop"))
        out.append(rec)
    return out
