"""C19 — degenerate data is handled: null columns get zero, nothing blows up.

Monitor: every solver is run on degenerate but legitimate data (all-zero columns / groups at the first, middle and
last position, duplicated or constant columns, n < p, a single feature or group, constant / zero / shifted targets,
feature scales spread over six decades), cold and from warm starts that put mass on the null columns.  The outcome
must be finite values that meet the reference certificate when convergence is claimed, with exactly zero penalised
coefficients on all-zero columns, or an explanatory ValueError.  ZeroDivisionError, LinAlgError, IndexError, ...,
NaN/inf, a dead worker or a hang (finite logical budgets are always supplied) are violations.
"""
import numpy as np

from vlib import cases as K
from vlib import oracles as O
from vlib.common import rng_for, want, small
from vlib.runner import digest

PROPERTY = "C19"
LEVEL = "exploration"
DEATH_IS_VIOLATION = True
TECHNIQUE = "runtime monitoring: outcome classifier + reference certificate on degenerate-data workloads, worker death/hang attributed to the case in flight"
LEVEL_TEXT = ("All solvers are driven on generated degenerate designs and targets (structure placed first / middle / last, "
              "inside and outside the initial working set, dense and CSC, both strategies, cold and warm); outcomes are "
              "classified (finite + certified + exact zeros on null columns | explanatory ValueError | violation).")
LEVEL_NOTE = ("termination is decided as bounded progress: finite budgets are always given, a worker that does not return "
              "within the shard watchdog is reported for the case in flight; trusted: vlib/refmath.py certificate")
RULE = ("cases = (solver, datafit, penalty, storage, strategy, intercept, degenerate class, placement, warm start); "
        "non-trivial = the run returned or raised (reached the classifier); distinct = digest(case spec)")
SLACK = dict(O.SLACK)
ASSUMPTIONS = ["classification targets are kept non-constant (a constant label is not a legitimate problem)"]
FLOOR = {"quick": 400, "thorough": 6000}
REPS = {"quick": 2, "thorough": 24}
SHARD_TIMEOUT = {"quick": 1500, "thorough": 5400}

CELLS = [
    ("AndersonCD", "Quadratic", "L1"), ("AndersonCD", "Quadratic", "WeightedL1"), ("AndersonCD", "Quadratic", "MCPenalty"),
    ("AndersonCD", "Logistic", "L1"), ("AndersonCD", "Huber", "L1_plus_L2"), ("AndersonCD", "Quadratic", "L0_5"),
    ("ProxNewton", "Logistic", "L1"), ("ProxNewton", "Poisson", "L1"), ("ProxNewton", "Quadratic", "L1_plus_L2"),
    ("ProxNewton", "Gamma", "L1"),
    ("GroupBCD", "QuadraticGroup", "WeightedGroupL2"), ("GroupBCD", "LogisticGroup", "WeightedGroupL2"),
    ("GroupBCD", "QuadraticGroup", "WeightedL1GroupL2"),
    ("GroupProxNewton", "LogisticGroup", "WeightedGroupL2"),
    ("MultiTaskBCD", "QuadraticMultiTask", "L2_1"), ("MultiTaskBCD", "QuadraticMultiTask", "BlockMCPenalty"),
    ("GramCD", None, "L1"), ("GramCD", None, "L1_plus_L2"),
    ("FISTA", "Quadratic", "L1"), ("FISTA", "Logistic", "L1"),
    ("LBFGS", "Logistic", "L2"), ("LBFGS", "Quadratic", "L2"),
    ("PDCD_WS", "Pinball", "L1"), ("PDCD_WS", "SqrtQuadratic", "L1"),
]
X_CLASSES = ["zero_col@first", "zero_col@middle", "zero_col@last", "dup_col@first", "dup_col@last", "const_col@middle",
             "scales", "zero_cols_many", None, None]
Y_CLASSES = [None, None, None, "const", "zero", "shift"]
SHAPES = ["n<p", "n>p", "p=1", "n=p"]


def plan(tier, seed):
    by = {}
    for c in CELLS:
        by.setdefault((c[0], c[1]), []).append(c[2])
    return [dict(name="%s/%s" % (s, d), solver=s, datafit=d, penalties=pens, reps=REPS[tier])
            for (s, d), pens in by.items()]


def gen_specs(rng, solver, df, pen, seed, rep):
    info = K.SOLVER_INFO[solver]
    out = []
    k = 0
    group_solver = solver in ("GroupBCD", "GroupProxNewton")
    for xc in X_CLASSES + (["zero_group@first", "zero_group@middle", "zero_group@last", "single_group"] if group_solver else []):
        k += 1
        storage = str(rng.choice(["dense", "csc", "csc_explicit0"])) if info["sparse"] else "dense"
        strategy = str(rng.choice(info["strategies"]))
        if pen == "WeightedL1GroupL2":
            strategy = "fixpoint"
        icpt = bool(rng.integers(0, 2)) and info["intercept"]
        if not K.compatible(solver, df, pen, "csc" if storage != "dense" else "dense", icpt, strategy):
            storage = "dense"
        shape = str(rng.choice(SHAPES))
        p = 1 if shape == "p=1" else int(rng.integers(3, 14))
        n = {"n<p": max(2, p - int(rng.integers(1, 3))), "n>p": p + int(rng.integers(3, 20)), "p=1": int(rng.integers(4, 20)),
             "n=p": p}[shape]
        n = max(n, 3)
        yc = rng.choice(Y_CLASSES) if df in ("Quadratic", "Huber", "QuadraticGroup", "QuadraticMultiTask", None,
                                              "SqrtQuadratic", "Pinball") else None
        knobs = dict(tol=float(rng.choice([1e-4, 1e-8])))
        b_it, b_ep = (info["budget"] + (None,))[:2]
        knobs[b_it] = {"FISTA": 3000, "LBFGS": 300, "GramCD": 2000, "PDCD_WS": 60}.get(solver, 40)
        if b_ep:
            knobs[b_ep] = 1500 if b_ep == "max_epochs" else 100
        if solver == "PDCD_WS":
            knobs["max_epochs"] = 300
        if solver in ("AndersonCD", "ProxNewton", "GroupBCD", "GroupProxNewton", "MultiTaskBCD", "PDCD_WS"):
            knobs["p0"] = int(rng.choice([1, 2, 10]))
        if solver == "GramCD":
            knobs["greedy_cd"] = bool(rng.integers(0, 2))
            knobs["use_acc"] = (not knobs["greedy_cd"]) and bool(rng.integers(0, 2))
        n_tasks = int(rng.integers(1, 4))
        if df == "QuadraticMultiTask" and rng.random() < 0.4:
            yc, n_tasks = "zero_task", int(rng.integers(2, 4))
        spec = dict(check="C19", seed=seed, coords=[solver, str(df), pen, rep, k], solver=solver, datafit=df,
                    penalty=pen, storage=storage, fit_intercept=icpt, strategy=strategy, n=n, p=p,
                    xkind=str(rng.choice(["gauss", "ar"])), rho=0.9, alpha_frac=float(rng.choice([0.05, 0.3, 1.2])),
                    knobs=knobs, n_tasks=n_tasks, mutate_y=yc,
                    warm=str(rng.choice(["cold", "zero", "dense"])), degenerate=str(xc), shape=shape,
                    group_style=str(rng.choice(["contig", "perm"])))
        if xc and xc.startswith("zero_group"):
            spec["zero_group"] = xc.split("@")[1]
            spec["zero_weight_on_null"] = bool(rng.random() < 0.4)       # an all-zero group that is also unpenalised
            if rng.random() < 0.4:
                # many more groups than the first working set and a start that is non-zero ONLY on the null group: nothing
                # but the optimality score of that group can bring it into a working set
                spec.update(p=int(rng.integers(30, 60)), n=int(rng.integers(25, 50)), warm="null_only", shape="n>p?",
                            zero_weight_on_null=False)
                spec["knobs"]["p0"] = 1
        elif xc == "single_group":
            spec["single_group"] = True
        elif xc and p > 1:
            spec["mutate_X"] = xc
        out.append(spec)
    return out


def run_shard(spec, emit):
    solver, df, seed = spec["solver"], spec["datafit"], spec["seed"]
    for pen in spec["penalties"]:
        for rep in range(spec["reps"]):
            rng = rng_for("C19", seed, solver, str(df), pen, rep)
            for i, cs in enumerate(gen_specs(rng, solver, df, pen, seed, rep)):
                cid = "%s/%s/%s/r%d/%d" % (solver, df, pen, rep, i)
                if not want(spec, cid):
                    continue
                coords = dict(solver=solver, datafit=df, penalty=pen, storage=cs["storage"], degenerate=cs["degenerate"],
                              strategy=cs["strategy"], fit_intercept=cs["fit_intercept"])
                emit(dict(id=cid, status="started", cell="%s|%s|%s" % (solver, df, pen), coords=coords))
                try:
                    run_case(emit, cid, cs, rep == 0 and i < 2)
                except Exception:
                    import traceback
                    emit(dict(id=cid, cell="harness", status="inconclusive", obs=dict(tb=traceback.format_exc()[-1500:])))


def run_case(emit, cid, cs, sample):
    case = K.Case(cs)
    base = dict(id=cid, cell="%s|%s" % (case.cell(), cs["degenerate"]), digest=digest(cs), nontrivial=True,
                hist={"degenerate": cs["degenerate"], "shape": cs["shape"], "target": str(cs.get("mutate_y"))})
    w0, xw0 = case.start(cs["warm"])
    tol = case.tol()
    out = case.solve(w0, xw0)
    common = dict(solver=case.solver_name, datafit=case.df_name, penalty=case.pen_name, storage=case.storage,
                  degenerate=cs["degenerate"], shape=cs["shape"], target=str(cs.get("mutate_y")), warm=cs["warm"],
                  strategy=case.strategy, fit_intercept=case.fit_intercept, greedy=case.knobs.get("greedy_cd"))
    if out["exc"] is not None:
        e = out["exc"]
        msg = str(e)
        explanatory = isinstance(e, ValueError) and not any(m in msg for m in ("unable to broadcast", "nopython", "numba"))
        if explanatory or (isinstance(e, AttributeError) and "compatible" in msg):
            emit(dict(base, status="refused", obs=dict(exc=repr(e)[:200]), hist=dict(base["hist"], outcome="ValueError")))
        else:
            emit(dict(base, status="violated",
                      viol=dict(common, mechanism="raises-non-explanatory-error", exc=type(e).__name__,
                                detail="%s: %s" % (type(e).__name__, msg.replace("\n", " ")[:200])),
                      obs=dict(case=case.describe(), exc=repr(e)[:600])))
        return
    f = O.judge_return(case, out, tol)
    viols = []
    if not (f["finite_w"] and f["finite_obj"] and f["finite_stop"]):
        viols.append(dict(common, mechanism="returns-non-finite-values",
                          detail="finite w=%s obj=%s stop=%s" % (f["finite_w"], f["finite_obj"], f["finite_stop"])))
    else:
        if O.cert_violated(f, tol) and case.solver_name not in ("FISTA", "PDCD_WS"):
            viols.append(dict(common, mechanism="converged-claim-fails-certificate", tol=tol, cert=f["cert"],
                              stop=f["stop"], ratio=f["cert"] / tol, drift_rel=f.get("drift_rel"),
                              buffer_cert_ok=(f.get("cert_buf") is not None and f["cert_buf"] <= tol * (1 + 1e-6)),
                              detail="stop=%.3g <= tol=%g but reference violation=%.3g" % (f["stop"], tol, f["cert"])))
        # exactly zero penalised coefficient on all-zero columns (when convergence is claimed, or from a cold start)
        coef, _ = case.ref.split(out["w"])
        zero_cols = np.where(~np.any(case.Xd != 0, axis=0))[0]
        pen_mask = case.ref_pen.is_penalized(case.Xd.shape[1]) if case.ref_pen.kind not in ("group", "sgroup") else \
            np.ones(case.Xd.shape[1], bool)
        if case.ref_pen.kind in ("l2",) or case.pen_name in ("PositiveConstraint", "IndicatorBox"):
            pen_mask = np.zeros(case.Xd.shape[1], bool) if case.pen_name != "L2" else pen_mask
        # from cold / zero starts a null column must keep an exactly zero coefficient for every solver; from warm
        # starts that put mass there, exact removal is only demanded where a coordinate-wise prox can deliver it
        # (block proxes shrink a null coordinate of an active group geometrically, L-BFGS has no thresholding):
        # those are judged by the certificate above.
        exact_from_warm = case.solver_name in ("AndersonCD", "ProxNewton", "GramCD", "FISTA", "PDCD_WS") and \
            case.ref_pen.kind not in ("mcp", "wmcp", "scad", "bmcp", "bscad")   # flat beyond alpha*gamma: a large coefficient
        #                                                                       on a null column is stationary there
        for j in zero_cols:
            cj = coef[j]
            if pen_mask[j] and np.any(cj != 0) and ((f.get("converged") and exact_from_warm)
                                                    or cs["warm"] in ("cold", "zero")):
                viols.append(dict(common, mechanism="nonzero-coefficient-on-null-column", column=int(j),
                                  detail="coef[%d]=%s on an all-zero column (converged=%s, warm=%s)" % (
                                      j, small(cj, 3), f.get("converged"), cs["warm"])))
                break
    rec = dict(base, count=dict(converged=int(bool(f.get("converged")))))
    rec["hist"] = dict(base["hist"], outcome="converged" if f.get("converged") else "returned-not-converged")
    if viols:
        rec.update(status="violated", viol=viols[0], viols=viols,
                   obs=dict(case=case.describe(), facts=f, w=small(out["w"], 20)))
    else:
        rec["status"] = "held"
    if sample:
        rec["sample"] = dict(case=case.describe(), degenerate=cs["degenerate"], shape=cs["shape"], stop_crit=f.get("stop"),
                             reference_violation=f.get("cert"), w=small(out["w"], 10))
    emit(rec)
