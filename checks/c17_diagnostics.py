"""C17 — reported diagnostics describe the run that happened.

Monitors over one traced run per case:
  - len(obj_out) equals the number of outer iterations performed (count of `outer_end` hook events; hook-free
    solvers: bounded by the budget and validated by the prefix argument on sampled budgets);
  - every entry equals the reference objective (loss + penalty of the coefficients, intercept unpenalised) of the
    iterate at the end of that outer iteration (hook state), the last entry that of the returned point; no padding,
    no inf/nan for feasible iterates;
  - on tolerance exit the returned stop_crit equals the reference violation of the returned point (two-sided);
  - estimator n_iter_ equals the number of outer iterations.
"""
import warnings
import numpy as np

from vlib import cases as K
from vlib import compose as C
from vlib import refmath as R
from vlib.common import rng_for, want, small
from vlib.runner import digest

PROPERTY = "C17"
LEVEL = "exploration"
TECHNIQUE = "runtime monitoring: offline checker over the recorded hook event stream vs the returned diagnostics (history length/entries, stopping value, n_iter_)"
LEVEL_TEXT = ("All nine solvers are run with budgets that converge early or exhaust; the returned objective history is "
              "compared entry by entry with the reference objective of the hook-observed iterate of each outer "
              "iteration, its length with the number of outer iterations that actually ran, and on tolerance exit the "
              "returned stopping value with the reference violation of the returned point (two-sided, 1% + 1e-4 tol). "
              "Tolerance sweeps (12-24 log-spaced tolerances per problem, acceleration on) make the exit fall on every "
              "phase of the extrapolation cycle; converged runs are restarted with the intercept shifted.")
LEVEL_NOTE = ("trusted: vlib/refmath.py objective and certificates; the intercept component of the stopping value is "
              "accepted either as |dF/db| or as |dF/db|/L_b (both are violations of the returned point)")
RULE = ("cases = (solver, datafit, penalty, storage, intercept, positivity, strategy, budget class in {converges, "
        "exhausts, zero}) ; non-trivial = at least one outer iteration ran; distinct = digest(case spec)")
SLACK = {"objective_rel": 1e-9, "stop_rel": 1e-2, "stop_abs_tol_fraction": 1e-4}
ASSUMPTIONS = ["hook `outer_end` fires once per completed outer iteration (validated: its count is compared with the "
               "returned history and, on sampled cases, with a re-run at max_iter = count)"]
FLOOR = {"quick": 300, "thorough": 5000}
REPS = {"quick": 5, "thorough": 60}
SOLVERS = ["AndersonCD", "ProxNewton", "GroupBCD", "GroupProxNewton", "MultiTaskBCD", "GramCD", "FISTA", "LBFGS",
           "PDCD_WS"]
HOOKED = ("AndersonCD", "ProxNewton", "GroupBCD", "GroupProxNewton", "MultiTaskBCD", "GramCD")


def plan(tier, seed):
    shards = []
    for solver in SOLVERS:
        info = K.SOLVER_INFO[solver]
        for df in info["datafits"]:
            pens = [p for p in info["penalties"]]
            if solver in ("AndersonCD", "ProxNewton"):
                pens = [p for p in pens if p in ("L1", "WeightedL1", "L1_plus_L2", "MCPenalty", "IndicatorBox",
                                                 "PositiveConstraint", "L0_5")]
            shards.append(dict(name="%s/%s" % (solver, df), solver=solver, datafit=df, penalties=pens,
                               reps=REPS[tier] * (3 if (solver == "GroupProxNewton" and tier == "quick") else 1)))
    shards.append(dict(name="estimators", solver="EST", datafit=None, penalties=[], reps=REPS[tier] * 3))
    for sv, df, pen in K.TOLSWEEP_FAMILIES:
        shards.append(dict(name="tolsweep/%s/%s/%s" % (sv, df, pen), solver=sv, datafit=df, penalties=[pen],
                           reps={"quick": 2, "thorough": 12}[tier], tolsweep={"quick": 12, "thorough": 24}[tier]))
    return shards


def gen_spec(rng, solver, df, pen, seed, coords):
    info = K.SOLVER_INFO[solver]
    storage = str(rng.choice(["dense", "csc"])) if info["sparse"] else "dense"
    strategy = str(rng.choice(info["strategies"]))
    if pen == "WeightedL1GroupL2":
        strategy = "fixpoint"
    icpt = bool(rng.integers(0, 2)) and info["intercept"] and df not in ("QuadraticSVC", "Cox")
    if not K.compatible(solver, df, pen, storage, icpt, strategy):
        storage = "dense"
        if not K.compatible(solver, df, pen, storage, icpt, strategy):
            return None
    if pen in ("PositiveConstraint",) and df in ("Logistic", "Poisson", "Gamma", "Cox", "LogisticGroup"):
        return None      # unbounded below on separable data: not a well-posed problem (overflow territory, see C19)
    n, p = int(rng.integers(10, 40)), int(rng.integers(3, 18))
    tol = float(rng.choice([1e-3, 1e-5]))
    knobs = dict(tol=tol)
    b_it, b_ep = (info["budget"] + (None,))[:2]
    klass = str(rng.choice(["converges", "converges", "exhausts", "zero"]))
    if klass == "zero":
        knobs[b_it] = 0
    elif klass == "exhausts":
        knobs[b_it] = int(rng.integers(1, 4))
        if b_ep:
            knobs[b_ep] = int(rng.integers(1, 23))
    else:
        knobs[b_it] = {"FISTA": 5000, "LBFGS": 500, "GramCD": 3000, "PDCD_WS": 200}.get(solver, 60)
        if b_ep:
            knobs[b_ep] = 3000 if b_ep == "max_epochs" else 200
    if solver in ("AndersonCD", "ProxNewton", "GroupBCD", "GroupProxNewton", "MultiTaskBCD", "PDCD_WS"):
        knobs["p0"] = int(rng.choice([1, 2, 10]))
    if solver == "GramCD":
        knobs["greedy_cd"] = bool(rng.integers(0, 2))
        knobs["use_acc"] = (not knobs["greedy_cd"]) and bool(rng.integers(0, 2))
    if solver == "MultiTaskBCD":
        knobs["use_acc"] = bool(rng.integers(0, 2))
    spec_ = K.widen(rng, dict(check="C17", seed=seed, coords=coords, solver=solver, datafit=df, penalty=pen, storage=storage,
                fit_intercept=icpt, strategy=strategy, n=n, p=p, xkind=str(rng.choice(["gauss", "ar", "shifted"])),
                rho=0.8, alpha_frac=float(rng.choice([0.02, 0.1, 0.5])),
                positive=bool(rng.integers(0, 2)) if pen in K.POSFLAG + ["WeightedGroupL2"] else False,
                knobs=knobs, group_style=str(rng.choice(["contig", "perm"])), n_tasks=int(rng.integers(1, 4)),
                warm=str(rng.choice(["cold", "zero", "dense"])), budget_class=klass),
                    prob=0.1, n_range=(40, 100), p_range=(60, 250))
    if solver == "GroupProxNewton" and spec_ is not None and isinstance(coords[-1], int):
        # its single cell (LogisticGroup x WeightedGroupL2): positivity and intercept in rotation, so that the few
        # repetitions of the quick tier meet "constraint on the coefficients, free intercept of either sign"
        r_ = coords[-1]
        spec_["positive"] = bool(r_ % 2 == 0)
        spec_["fit_intercept"] = bool(r_ % 4 in (0, 1)) and info["intercept"]
    return spec_


def run_shard(spec, emit):
    solver, df, seed = spec["solver"], spec["datafit"], spec["seed"]
    if solver == "EST":
        return _estimators(spec, emit)
    for pen in spec["penalties"]:
        for rep in range(spec["reps"]):
            cid = "%s/%s/%s/r%d" % (solver, df, pen, rep)
            if not want(spec, cid):
                continue
            rng = rng_for("C17", seed, solver, str(df), pen, rep)
            cs = gen_spec(rng, solver, df, pen, seed, [solver, str(df), pen, rep])
            if cs is None:
                continue
            todo = [(cid, cs)]
            if spec.get("tolsweep") and solver == "AndersonCD":
                # an intercept that matters (non-centred features) and, every other repetition, a working set that is the
                # whole problem: the run then leaves through the branch that ends the inner loop on the tolerance itself
                cs.update(fit_intercept=True, xkind="shifted")
                if rep % 2 == 0:
                    cs["knobs"]["p0"] = int(cs["p"])
            if spec.get("tolsweep"):
                todo = [("tolsweep/%s/t%d" % (cid, i), c2) for i, c2 in enumerate(K.tol_sweep(rng, cs, spec["tolsweep"]))]
            for cid_, cs_ in todo:
                try:
                    run_case(emit, cid_, cs_, rng, rep == 0 and cid_ == todo[0][0])
                except Exception:
                    import traceback
                    emit(dict(id=cid_, cell="harness", status="inconclusive", obs=dict(tb=traceback.format_exc()[-1500:])))


def _v(case, mech, detail, **kw):
    d = dict(mechanism=mech, solver=case.solver_name, datafit=case.df_name, penalty=case.pen_name,
             storage=case.storage, fit_intercept=case.fit_intercept, strategy=case.strategy,
             positive=bool(case.spec.get("positive")), budget_class=case.spec.get("budget_class"),
             use_acc=case.knobs.get("use_acc"), detail=detail)
    d.update(kw)
    return d


def run_case(emit, cid, cs, rng, sample):
    case = K.Case(cs)
    base = dict(id=cid, cell=case.cell(), digest=digest(cs))
    w0, xw0 = case.start(cs["warm"])
    if case.solver_name == "PDCD_WS" and cs["warm"] != "cold":
        w0, xw0 = case.start("zero")
    tol = case.tol()
    out = case.solve(w0, xw0, trace_kinds=("outer", "outer_end", "return"))
    if out["exc"] is not None:
        e = out["exc"]
        # a crash on a legitimate budget is a diagnostics failure only when it comes from the bookkeeping itself
        if isinstance(e, (UnboundLocalError, NameError)):
            emit(dict(base, status="violated", nontrivial=True,
                      viol=_v(case, "history-bookkeeping-raises", repr(e)[:200], exc=type(e).__name__),
                      obs=dict(case=case.describe())))
        else:
            emit(dict(base, status="refused", nontrivial=False, obs=dict(exc=repr(e)[:300], case=case.describe())))
        return
    obj, stop, w = out["obj"], out["stop"], out["w"]
    viols = []
    tr = out["trace"]
    ends = tr.of("outer_end")
    n_outer = None
    if case.solver_name in HOOKED:
        n_outer = len(ends)
        if len(obj) != n_outer:
            viols.append(_v(case, "history-length-differs-from-iterations", "len(obj_out)=%d, outer iterations run=%d" % (
                len(obj), n_outer), n_obj=int(len(obj)), n_outer=n_outer))
        for i, p in enumerate(ends[: len(obj)]):
            Fi = case.ref.objective(p["w"])
            if not R.close(obj[i], Fi, rel=SLACK["objective_rel"]):
                viols.append(_v(case, "history-entry-differs-from-objective",
                                "obj_out[%d]=%r, reference objective of that iterate=%r" % (i, float(obj[i]), Fi),
                                entry=i, got=float(obj[i]), ref=Fi))
                break
    else:
        info = K.SOLVER_INFO[case.solver_name]
        mi = case.knobs.get(info["budget"][0])
        # (scipy's L-BFGS-B performs one iteration even for maxiter=0, so LBFGS is not judged on this)
        if mi is not None and len(obj) > mi and case.solver_name != "LBFGS":
            viols.append(_v(case, "history-length-exceeds-budget", "len(obj_out)=%d > max_iter=%d" % (len(obj), mi)))
        n_outer = len(obj)
    if len(obj):
        Fw = case.ref.objective(w)
        if case.solver_name == "LBFGS":
            pass   # scipy may evaluate the callback at a point it then refines; only finiteness is judged
        elif not R.close(obj[-1], Fw, rel=SLACK["objective_rel"]):
            viols.append(_v(case, "last-history-entry-differs-from-returned-objective",
                            "obj_out[-1]=%r, objective of the returned point=%r" % (float(obj[-1]), Fw),
                            got=float(obj[-1]), ref=Fw))
        if not np.all(np.isfinite(obj)) and np.isfinite(Fw):
            viols.append(_v(case, "history-has-non-finite-entry", "obj_out=%s" % small(obj, 6)))
    # ---- stopping value on tolerance exit
    two_sided = None
    measurable = True
    if case.strategy == "fixpoint" and case.ref_pen.kind in ("mcp", "wmcp", "scad", "bmcp", "bscad"):
        # outside the well-posed step range the reference has no prox-gradient residual to compare with
        try:
            L = case.ref.hess_lipschitz(w) if case.solver_name == "ProxNewton" else case.ref.lipschitz()
            measurable = bool(np.all(L > 0)) and all(case.ref_pen.admissible_step(1.0 / L[j], j) for j in range(len(L)))
        except Exception:
            measurable = False
    if measurable and case.strategy == "fixpoint":
        # a prox-gradient residual divides by the curvature of its unit: where that curvature underflows (saturated
        # logistic on separable data: Hessian ~ 1e-30) or is tiny, solver and reference compare two noise amplifications
        try:
            Ls = case.fixpoint_steps(w)
            if Ls is not None and (np.any(Ls <= 0) or float(np.min(Ls)) < 1e-6 * max(1.0, float(np.max(Ls)))):
                measurable = False
        except Exception:
            measurable = False
    if stop <= tol and case.solver_name != "PDCD_WS" and np.all(np.isfinite(w)) and measurable:
        cert, per, ib = case.certificate(w)
        cu = float(np.max(per)) if per is not None and len(per) else cert
        cands = [cert]
        c = case.ref_df.curv_sup(case.y, case.Xd.shape[0]) if case.fit_intercept else None
        if c is not None and ib > 0 and case.solver_name in ("AndersonCD", "GroupBCD", "MultiTaskBCD"):
            cands.append(max(cu, ib / float(np.sum(c))))
        slack = SLACK["stop_abs_tol_fraction"] * tol + 1e-9 * (1 + float(np.max(np.abs(case.ref.gradient(w)))))
        two_sided = min(abs(stop - cc) - SLACK["stop_rel"] * max(stop, cc) for cc in cands) <= slack
        if not two_sided:
            viols.append(_v(case, "stop-value-differs-from-violation-of-returned-point",
                            "stop_crit=%.4g, reference violation of the returned point=%.4g (tol=%g)" % (stop, cert, tol),
                            stop=float(stop), cert=float(cert), tol=tol,
                            ratio=float(stop / cert) if cert > 0 else None))
    # ---- restart from the converged point with the intercept moved: the stopping value returned by that run must again be
    # the violation of ITS returned point (a value that leaves the intercept out shows up here at once)
    if (not viols and stop <= tol and case.fit_intercept and case.solver_name in HOOKED and np.all(np.isfinite(w))
            and case.ref_df.kind != "multitask" and measurable):
        w1 = np.array(w, dtype=float, copy=True)
        w1[-1] += 1.5
        wb, bb = case.ref.split(w1)
        o2 = case.solve(np.ascontiguousarray(w1), np.ascontiguousarray(case.Xd @ wb + bb))
        if o2["exc"] is None and o2["stop"] <= tol and np.all(np.isfinite(o2["w"])):
            cert2, per2, ib2 = case.certificate(o2["w"])
            cu2 = float(np.max(per2)) if per2 is not None and len(per2) else cert2
            c = case.ref_df.curv_sup(case.y, case.Xd.shape[0])
            cands = [cert2] + ([max(cu2, ib2 / float(np.sum(c)))] if c is not None and ib2 > 0 else [])
            slack = SLACK["stop_abs_tol_fraction"] * tol + 1e-9 * (1 + float(np.max(np.abs(case.ref.gradient(o2["w"])))))
            if not min(abs(o2["stop"] - cc) - SLACK["stop_rel"] * max(o2["stop"], cc) for cc in cands) <= slack:
                viols.append(_v(case, "stop-value-differs-from-violation-of-returned-point",
                                "restart with shifted intercept: stop_crit=%.4g, reference violation of the returned point="
                                "%.4g (tol=%g)" % (o2["stop"], cert2, tol), stop=float(o2["stop"]), cert=float(cert2), tol=tol,
                                start="optimum+shift_intercept"))
    rec = dict(base, nontrivial=bool(n_outer and n_outer >= 1),
               count=dict(history_entries=int(len(obj)), tolerance_exits=int(stop <= tol),
                          two_sided_checks=int(two_sided is not None)),
               hist={"budget_class": cs["budget_class"], "n_outer": n_outer, "size": cs.get("size", "small")})
    if viols:
        rec.update(status="violated", viol=viols[0], viols=viols[:10],
                   obs=dict(case=case.describe(), obj=small(obj, 10), stop=stop, all=[v["detail"] for v in viols[:5]]))
    else:
        rec["status"] = "held"
    if sample:
        rec["sample"] = dict(case=case.describe(), obj_out=small(obj, 8), outer_iterations_seen_by_hooks=len(ends),
                             stop_crit=stop, tol=tol)
    emit(rec)


def _estimators(spec, emit):
    import skglm.estimators as E
    seed = spec["seed"]
    names = ["Lasso", "ElasticNet", "WeightedLasso", "MCPRegression", "GroupLasso", "SparseLogisticRegression",
             "LinearSVC", "MultiTaskLasso"]
    for rep in range(spec["reps"]):
        if rep % 5 == 4:
            _reweighted(emit, seed, rep)
        name = names[rep % len(names)]
        cid = "EST/%s/r%d" % (name, rep)
        if not want(spec, cid):
            continue
        rng = rng_for("C17", seed, "EST", name, rep)
        n, p = int(rng.integers(12, 40)), int(rng.integers(3, 16))
        X = C.make_X(rng, n, p, str(rng.choice(["gauss", "ar"])), rho=0.8)
        icpt = bool(rng.integers(0, 2))
        mi = int(rng.choice([1, 2, 3, 50]))
        kw = dict(max_iter=mi, tol=float(rng.choice([1e-3, 1e-6])))
        base = dict(id=cid, cell="estimator|%s" % name, digest=digest(cid, seed))
        from vlib.record import Trace
        try:
            with warnings.catch_warnings(), Trace(kinds=("outer_end",)) as tr:
                warnings.simplefilter("ignore")
                if name in ("SparseLogisticRegression", "LinearSVC"):
                    y = C.make_target(rng, X, "pm1")
                    a = float(np.max(np.abs(X.T @ y)) / (2 * n)) * float(rng.choice([0.05, 0.3]))
                    est = E.SparseLogisticRegression(alpha=a, fit_intercept=icpt, **kw) if name[0] == "S" else \
                        E.LinearSVC(C=1.0, **kw)
                elif name == "MultiTaskLasso":
                    y = C.make_target(rng, X, "multi", n_tasks=2)
                    a = float(np.max(np.linalg.norm(X.T @ (y - y.mean(0)), axis=1)) / n) * 0.2
                    est = E.MultiTaskLasso(alpha=a, fit_intercept=icpt, max_epochs=200, **kw)
                else:
                    y = C.make_target(rng, X, "real")
                    a = float(np.max(np.abs(X.T @ (y - y.mean()))) / n) * float(rng.choice([0.05, 0.3]))
                    if name == "GroupLasso":
                        gs = C.make_groups(rng, p)
                        est = E.GroupLasso(groups=[len(g) for g in gs], alpha=a, fit_intercept=icpt, **kw)
                    elif name == "WeightedLasso":
                        est = E.WeightedLasso(alpha=a, weights=rng.uniform(0.5, 2, size=p), fit_intercept=icpt, **kw)
                    else:
                        est = getattr(E, name)(alpha=a, fit_intercept=icpt, **kw)
                est.fit(X, y)
        except Exception as e:
            emit(dict(base, status="violated" if isinstance(e, (UnboundLocalError, NameError)) else "refused",
                      nontrivial=True,
                      viol=dict(mechanism="history-bookkeeping-raises", estimator=name, exc=type(e).__name__,
                                detail=repr(e)[:200]), obs=dict(max_iter=mi)))
            continue
        n_outer = len(tr.of("outer_end"))
        rec = dict(base, nontrivial=n_outer >= 1, count=dict(estimator_fits=1), hist={"n_outer": n_outer})
        if est.n_iter_ != n_outer:
            rec.update(status="violated",
                       viol=dict(mechanism="n_iter_-differs-from-iterations", estimator=name, n_iter=int(est.n_iter_),
                                 n_outer=n_outer, max_iter=mi,
                                 detail="n_iter_=%d, outer iterations run=%d (max_iter=%d)" % (est.n_iter_, n_outer, mi)),
                       obs=dict(max_iter=mi))
        else:
            rec["status"] = "held"
        if rep < len(names):
            rec["sample"] = dict(estimator=name, max_iter=mi, n_iter_=int(est.n_iter_), outer_iterations=n_outer)
        emit(rec)


def _reweighted(emit, seed, rep):
    """IterativeReweightedL1.loss_history_: one entry per reweighting iteration of THIS fit, each the objective
    datafit + penalty of the iterate at that time (the last one: of coef_), also when the object is fitted again."""
    from skglm.experimental.reweighted import IterativeReweightedL1
    import skglm.penalties as P
    import skglm.datafits as D
    cid = "EST/IterativeReweightedL1/r%d" % rep
    rng = rng_for("C17", seed, "EST", "reweighted", rep)
    base = dict(id=cid, cell="estimator|IterativeReweightedL1", digest=digest(cid, seed), nontrivial=True,
                count=dict(estimator_fits=0))
    viols = []
    try:
        kind = str(rng.choice(["L0_5", "LogSum"]))
        nrw = int(rng.integers(1, 6))
        est = None
        for fit_no in range(int(rng.integers(1, 4))):
            n, p = int(rng.integers(15, 40)), int(rng.integers(4, 12))
            X = C.make_X(rng, n, p, "gauss")
            y = C.make_target(rng, X, "real")
            a = 0.1 * float(np.max(np.abs(X.T @ y)) / n)
            if est is None:
                pen, refpen = (P.L0_5(a), R.RefPenalty("l05", alpha=a)) if kind == "L0_5" else \
                    (P.LogSumPenalty(a, 1.0), R.RefPenalty("logsum", alpha=a, eps=1.0))
                est = IterativeReweightedL1(D.Quadratic(), pen, n_reweights=nrw)
            else:
                a = float(refpen.p["alpha"])
            with warnings.catch_warnings():
                warnings.simplefilter("ignore")
                est.fit(X, y)
            base["count"]["estimator_fits"] += 1
            hist = np.asarray(est.loss_history_, float)
            prob = R.RefProblem(X, y, R.RefDatafit("quadratic"), refpen, False)
            if len(hist) != nrw:
                viols.append(dict(mechanism="history-length-differs-from-iterations", estimator="IterativeReweightedL1",
                                  fit_no=fit_no, n_obj=int(len(hist)), n_outer=nrw,
                                  detail="fit %d: len(loss_history_)=%d, n_reweights=%d" % (fit_no, len(hist), nrw)))
            elif not R.close(float(hist[-1]), prob.objective(np.ravel(est.coef_)), rel=1e-9):
                viols.append(dict(mechanism="last-history-entry-differs-from-returned-objective",
                                  estimator="IterativeReweightedL1", fit_no=fit_no,
                                  detail="fit %d: loss_history_[-1]=%r, objective of coef_=%r" % (
                                      fit_no, float(hist[-1]), prob.objective(np.ravel(est.coef_)))))
    except Exception as e:
        viols.append(dict(mechanism="history-bookkeeping-raises", estimator="IterativeReweightedL1", exc=type(e).__name__,
                          detail=repr(e)[:200]))
    rec = dict(base)
    if viols:
        rec.update(status="violated", viol=viols[0], viols=viols)
    else:
        rec["status"] = "held"
    emit(rec)
