"""C13 — every composition is either refused with an explanation or solved.

The finite matrix solver x datafit x penalty x {dense, CSC} x {fit_intercept} x {ws_strategy} is enumerated on one
small well-conditioned problem per cell (domain-appropriate data, datafit initialised first).  Each cell's outcome,
observed in a child process, must be (R) an AttributeError/ValueError raised by solve() whose message names the
missing method / attribute / structure, or (S) a normal return with finite values that meets the reference
certificate when it claims convergence.  Anything else — numba typing/lowering errors, index / arithmetic /
broadcasting errors from compiled code, non-finite output, a dead or hung worker — is a violation.
"""
import re
import numpy as np

from vlib import cases as K
from vlib import compose as C
from vlib import oracles as O
from vlib.common import rng_for, want, small
from vlib.runner import digest

PROPERTY = "C13"
LEVEL = "exploration"
EXHAUSTIVE = {"quick": False, "thorough": True}
DEATH_IS_VIOLATION = True
TECHNIQUE = "runtime monitoring: exhaustive enumeration of the composition matrix in child processes with an outcome classifier (explanatory refusal | certified solve | violation)"
LEVEL_TEXT = ("thorough enumerates the whole solver x datafit x penalty x storage x intercept x strategy matrix (one "
              "small problem per cell) and classifies each outcome; quick runs a covering sample (every (solver, "
              "datafit) and (solver, penalty) pair at least once) plus a seeded random remainder. Worker death or a "
              "hang is attributed to the cell in flight.")
LEVEL_NOTE = ("one well-conditioned problem per cell (n=14, p=6); refusals must come from solve() as AttributeError / "
              "ValueError whose message names a method, attribute or structure; trusted: vlib/refmath.py certificate")
RULE = ("cells = solver(9) x datafit(13 + None for GramCD) x penalty(19) x {dense, csc} x {fit_intercept} x "
        "{subdiff, fixpoint}; parameters a solver does not expose are collapsed; non-trivial = the cell reached the "
        "classifier (refused or solved); distinct = cell coordinates")
SLACK = dict(O.SLACK)
ASSUMPTIONS = ["datafit.initialize(_sparse) is called before solve(), as the documented examples do",
               "domain-appropriate targets per datafit (counts for Poisson, survival pairs for Cox, 2-D Y for multitask)"]
FLOOR = {"quick": 300, "thorough": 5000}
SHARD_TIMEOUT = {"quick": 1500, "thorough": 5400}

SOLVERS = C.SOLVERS
REFUSAL_WORDS = re.compile(
    r"(`[A-Za-z_]+`|must implement|Missing|missing|not compatible|sparse|Sparse|group|block-separable|datafit|"
    r"penalty|Penalty|Datafit|`None`|must be|should be|ws_strategy|opt_strategy|positive values|supports only)")
COMPILED_MARKERS = ("nopython", "numba", "unable to broadcast", "Failed in", "lowering", "LLVM")


def solver_dims(solver):
    """which of (fit_intercept, strategy) the solver exposes."""
    icpt = solver in ("AndersonCD", "ProxNewton", "GroupBCD", "GroupProxNewton", "MultiTaskBCD", "PDCD_WS", "GramCD")
    strat = solver in ("AndersonCD", "ProxNewton", "GroupBCD", "MultiTaskBCD", "FISTA")
    return icpt, strat


def all_cells():
    cells = []
    for solver in SOLVERS:
        icpt_dim, strat_dim = solver_dims(solver)
        dfs = list(C.DATAFITS) + ([None] if solver == "GramCD" else [])
        for df in dfs:
            for pen in C.PENALTIES:
                for storage in ("dense", "csc"):
                    for icpt in ((False, True) if icpt_dim else (False,)):
                        for strat in (("subdiff", "fixpoint") if strat_dim else ("subdiff",)):
                            cells.append((solver, df, pen, storage, icpt, strat))
    return cells


def nominal_size():
    return len(SOLVERS) * 13 * 19 * 2 * 2 * 2


def plan(tier, seed):
    cells = all_cells()
    if tier == "quick":
        rng = rng_for("C13", seed, "sample")
        chosen, seen_sd, seen_sp = [], set(), set()
        order = rng.permutation(len(cells))
        # first pass: cover every (solver, datafit) pair with a penalty that solver normally accepts and every
        # (solver, penalty) pair with a datafit it normally accepts, so that the check guarding the *other* component
        # is actually reached (a cell that is refused for its penalty says nothing about the datafit checks)
        for i in order:
            c = cells[i]
            info = K.SOLVER_INFO[c[0]]
            if c[2] in info["penalties"] and (c[0], c[1]) not in seen_sd:
                chosen.append(c)
                seen_sd.add((c[0], c[1]))
        for i in order:
            c = cells[i]
            info = K.SOLVER_INFO[c[0]]
            if c[1] in info["datafits"] and (c[0], c[2]) not in seen_sp and c not in set(chosen):
                chosen.append(c)
                seen_sp.add((c[0], c[2]))
        for i in order:
            c = cells[i]
            if (c[0], c[1]) not in seen_sd or (c[0], c[2]) not in seen_sp:
                chosen.append(c)
                seen_sd.add((c[0], c[1]))
                seen_sp.add((c[0], c[2]))
        rest = [cells[i] for i in order if cells[i] not in set(chosen)]
        chosen += rest[: max(0, 750 - len(chosen))]
        cells = chosen
    by = {}
    for c in cells:
        by.setdefault((c[0], str(c[1])), []).append(c)
    shards = []
    for (solver, df), cs in sorted(by.items()):
        heavy = solver in ("AndersonCD", "ProxNewton", "FISTA") and tier == "thorough"
        size = 40 if heavy else 400
        for i in range(0, len(cs), size):
            shards.append(dict(name="%s/%s/%d" % (solver, df, i // size), cells=[list(c) for c in cs[i:i + size]]))
    # longest first
    shards.sort(key=lambda s: -len(s["cells"]))
    return shards


def run_shard(spec, emit):
    seed = spec["seed"]
    for c in spec["cells"]:
        solver, df, pen, storage, icpt, strat = c
        cid = "%s|%s|%s|%s|icpt=%d|%s" % (solver, df, pen, storage, int(icpt), strat)
        if not want(spec, cid):
            continue
        coords = dict(solver=solver, datafit=df, penalty=pen, storage=storage, fit_intercept=bool(icpt), strategy=strat)
        emit(dict(id=cid, status="started", cell=cid, coords=coords))
        try:
            run_cell(emit, cid, coords, seed)
        except Exception:
            import traceback
            emit(dict(id=cid, cell=cid, status="inconclusive", obs=dict(tb=traceback.format_exc()[-1500:])))


def build_case(coords, seed, layout="contig"):
    solver = coords["solver"]
    spec = dict(check="C13", seed=seed, coords=["cell"], solver=solver, datafit=coords["datafit"],
                penalty=coords["penalty"], storage=coords["storage"], fit_intercept=coords["fit_intercept"],
                strategy=coords["strategy"], n=14, p=6, xkind="gauss" if layout == "contig" else "centered",
                alpha_frac=0.3, positive=False,
                knobs=dict(tol=1e-6), group_style=layout, n_tasks=2,
                # "one small, well-conditioned problem per cell": an ordinary offset (a target dominated by its mean puts the
                # square-root datafit with an intercept into its documented small-residual refusal) and labels that no
                # hyperplane separates (otherwise compositions whose penalty does not bound the coefficients have no minimiser)
                offset_scale=1.0, mirror_pairs=True)
    case = K.Case(spec)
    # Case collapses fit_intercept for solvers it believes have none: apply the cell's value verbatim
    case.fit_intercept = bool(coords["fit_intercept"]) and solver in (
        "AndersonCD", "ProxNewton", "GroupBCD", "GroupProxNewton", "MultiTaskBCD")
    case.ref.fit_intercept = case.fit_intercept
    return case


def classify_exception(e):
    name = type(e).__name__
    msg = str(e)
    mod = type(e).__module__ or ""
    from_compiled = mod.startswith("numba") or any(m in msg for m in COMPILED_MARKERS)
    if isinstance(e, (AttributeError, ValueError)) and not from_compiled and REFUSAL_WORDS.search(msg):
        return "refused", name, msg
    # Python's own AttributeError on a datafit / penalty object also names the class and the method it lacks
    m = re.search(r"'(\w+)' object has no attribute '(\w+)'", msg)
    if isinstance(e, AttributeError) and not from_compiled and m and m.group(1) in (C.DATAFITS + C.PENALTIES):
        return "refused", name, msg
    return "violation", name, msg


def run_cell(emit, cid, coords, seed, layout="contig"):
    solver = coords["solver"]
    if layout == "contig" and (coords["datafit"] in ("QuadraticGroup", "LogisticGroup")
                               or coords["penalty"] in ("WeightedGroupL2", "WeightedL1GroupL2")):
        # group-structured components are judged on a second problem as well: as many groups as features, listed in
        # reverse order, columns on different scales (a composition that takes groups for features shows there)
        cid2 = cid + "|singletons"
        emit(dict(id=cid2, status="started", cell=cid2, coords=coords))
        run_cell(emit, cid2, coords, seed, layout="singletons_rev")
        emit(dict(id=cid, status="started", cell=cid, coords=coords))
    base = dict(id=cid, cell="%s|%s" % (solver, coords["datafit"]), digest=digest(cid), nontrivial=True)
    try:
        case = build_case(coords, seed, layout)
    except Exception as e:
        emit(dict(base, status="inconclusive", nontrivial=False, obs=dict(build_error=repr(e)[:300])))
        return
    kn = dict(tol=1e-6)
    if solver == "PDCD_WS":
        kn.update(fit_intercept=bool(coords["fit_intercept"]))
    if solver == "GramCD":
        kn.update(fit_intercept=bool(coords["fit_intercept"]))
    out = case.solve(None, None, **kn)
    if out["exc"] is not None:
        kind, name, msg = classify_exception(out["exc"])
        if kind == "refused":
            emit(dict(base, status="refused", hist={"outcome": "refused:" + name, "refusal": msg[:90]},
                      sample=dict(cell=cid, outcome="refused", error=name, message=msg[:200]) if hash(cid) % 97 == 0 else None))
        else:
            emit(dict(base, status="violated",
                      viol=dict(coords, mechanism="fails-without-explanatory-refusal", exc=name,
                                from_compiled=any(m in msg for m in COMPILED_MARKERS),
                                detail="%s: %s" % (name, msg.replace("\n", " ")[:260])),
                      obs=dict(exc=name, msg=msg[:1500]), hist={"outcome": "error:" + name}))
        return
    f = O.judge_return(case, out, 1e-6)
    finite = f["finite_w"] and f["finite_obj"] and f["finite_stop"]
    if not finite:
        emit(dict(base, status="violated",
                  viol=dict(coords, mechanism="returns-non-finite-values", detail="w/obj/stop not finite"),
                  obs=dict(w=small(out["w"]), obj=small(out["obj"]), stop=out["stop"]), hist={"outcome": "non-finite"}))
        return
    if "cert_error" in f and solver not in ("FISTA", "PDCD_WS"):
        emit(dict(base, status="inconclusive", obs=dict(cert_error=f["cert_error"])))
        return
    if solver not in ("FISTA", "PDCD_WS") and O.cert_violated(f, 1e-6):
        emit(dict(base, status="violated",
                  viol=dict(coords, mechanism="solved-but-fails-certificate", stop=f["stop"], cert=f["cert"],
                            detail="stop_crit=%.3g <= tol=1e-6 but reference violation=%.3g" % (f["stop"], f["cert"])),
                  obs=dict(facts=f, w=small(out["w"], 20)), hist={"outcome": "bad-certificate"}))
        return
    emit(dict(base, status="held", hist={"outcome": "solved" + ("+converged" if f.get("converged") else "")},
              sample=dict(cell=cid, outcome="solved", stop_crit=f["stop"], reference_violation=f.get("cert"))
              if hash(cid) % 97 == 0 else None))
