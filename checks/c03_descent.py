"""C03 — monotone descent under every iteration budget; extrapolation never hurts.

Monitors (objective always recomputed by the reference model from the coefficients alone):
  (i)  hook trajectory of one long run: F at every end-of-epoch / end-of-prox-Newton-iteration state must be
       non-increasing and <= F(start); these states are exactly the points returned for smaller budgets, which is
       validated on sampled budgets by re-running with (max_iter=k, max_epochs=e) and demanding bitwise equality;
  (ii) every `extrap` hook event whose candidate was accepted (next state == candidate, bitwise) must not
       increase F;
  (iii) boundary prefix chains without hooks: budgets (1, e) for e = 1..E and (k, E0) for k = 1..K;
  (iv) IterativeReweightedL1: the non-convex objective after each reweighting is non-increasing.
"""
import numpy as np

from vlib import cases as K
from vlib import refmath as R
from vlib.common import rng_for, want, small
from vlib.runner import digest

PROPERTY = "C03"
LEVEL = "exploration"
TECHNIQUE = "runtime monitoring: invariant at hooks (objective non-increasing at every stopping point, accepted extrapolations) cross-validated against boundary prefix runs"
LEVEL_TEXT = ("Descent solvers are run on generated problems with all intermediate stopping points observed through "
              "guarded hooks; the reference objective of every such point (computed from the coefficients alone) must "
              "be non-increasing along the run and never above the start; accepted Anderson extrapolations are "
              "identified bitwise and must not increase it; hook states are validated against real runs with the "
              "corresponding smaller budgets (bitwise), and hook-free prefix chains repeat the test at the API boundary.")
LEVEL_NOTE = ("trusted: vlib/refmath.py objective; non-convex penalties only inside their well-posed step range "
              "(MCP: gamma > weight/L_j, SCAD: gamma > 1 + 1/L_j), others counted out_of_scope; slack 1e-10 relative")
RULE = ("cases = (solver, datafit, penalty, storage, intercept, strategy, p0, warm start, acceleration) -> one traced run "
        "(<= 3 outer x 22 epochs) + prefix chains; non-trivial = trajectory with >= 3 stopping points of which at least "
        "one changes the coefficients; distinct = digest(case spec)")
SLACK = {"objective_rel": 1e-10}
ASSUMPTIONS = ["hooks report copies of (w, Xw) at the end of each epoch; validated bitwise against boundary runs on "
               "sampled budgets (traces_validated_against_impl)"]
FLOOR = {"quick": 150, "thorough": 2500}
REPS = {"quick": 4, "thorough": 50}
SOLVERS = ["AndersonCD", "ProxNewton", "GroupBCD", "GroupProxNewton", "MultiTaskBCD", "GramCD"]


def plan(tier, seed):
    shards = []
    for solver in SOLVERS:
        info = K.SOLVER_INFO[solver]
        for df in info["datafits"]:
            pens = list(info["penalties"])
            size = 3 if solver in ("AndersonCD", "ProxNewton") else 6
            for i in range(0, len(pens), size):
                shards.append(dict(name="%s/%s/%d" % (solver, df, i // size), solver=solver, datafit=df,
                                   penalties=pens[i:i + size], reps=REPS[tier]))
    shards.append(dict(name="reweighted", solver="IRL1", datafit="Quadratic", penalties=["L0_5", "LogSumPenalty"],
                       reps=REPS[tier] * 3))
    return shards


def in_scope(case):
    """well-posed step range for the weakly convex penalties."""
    k = case.ref_pen.kind
    if k not in ("mcp", "wmcp", "scad", "bmcp", "bscad"):
        return True
    if case.solver_name in ("ProxNewton", "GroupProxNewton"):
        return False if k in ("mcp", "wmcp", "scad") and case.ref_df.kind in ("poisson", "gamma", "cox") else _range(case)
    return _range(case)


def _range(case):
    try:
        if case.solver_name == "GramCD":
            L = np.sum(case.Xd ** 2, axis=0) / case.Xd.shape[0]
        else:
            L = case.ref.lipschitz()
        if L is None or np.any(L <= 0):
            return False
        pen = case.ref_pen
        return all(pen.admissible_step(1.0 / L[j] * 1.0001, j) for j in range(len(L)))
    except Exception:
        return False


def gen_spec(rng, solver, df, pen, seed, coords):
    info = K.SOLVER_INFO[solver]
    storage = str(rng.choice(["dense", "csc"])) if info["sparse"] else "dense"
    strategy = str(rng.choice(info["strategies"]))
    if pen == "WeightedL1GroupL2":
        strategy = "fixpoint"
    icpt = bool(rng.integers(0, 2)) and info["intercept"] and df not in ("QuadraticSVC", "Cox")
    if not K.compatible(solver, df, pen, storage, icpt, strategy):
        storage = "dense"
    n = int(rng.integers(10, 40))
    p = int(rng.integers(3, 20))
    knobs = dict(tol=1e-14)
    if solver != "GramCD":
        knobs["p0"] = int(rng.choice([1, 2, 10, p]))
    if solver == "GramCD":
        knobs["greedy_cd"] = bool(rng.integers(0, 2))
        knobs["use_acc"] = not knobs["greedy_cd"]
    if solver == "MultiTaskBCD":
        knobs["use_acc"] = bool(rng.integers(0, 2))
    spec = dict(check="C03", seed=seed, coords=coords, solver=solver, datafit=df, penalty=pen, storage=storage,
                fit_intercept=icpt, strategy=strategy, n=n, p=p,
                xkind=str(rng.choice(["gauss", "ar", "shifted"])), rho=float(rng.choice([0.5, 0.95])),
                alpha_frac=float(rng.choice([0.02, 0.1, 0.5])),
                positive=bool(rng.integers(0, 2)) if pen in K.POSFLAG + ["WeightedGroupL2"] else False,
                zero_weights=bool(rng.integers(0, 2)), knobs=knobs,
                group_style=str(rng.choice(["contig", "perm"])), n_tasks=int(rng.integers(1, 4)),
                warm=str(rng.choice(["zero", "dense", "sparse"])))
    if pen in ("MCPenalty", "WeightedMCPenalty", "BlockMCPenalty"):
        spec["pen_opts"] = dict(gamma=float(rng.choice([30.0, 100.0])))
    if pen in ("SCAD", "BlockSCAD"):
        spec["pen_opts"] = dict(gamma=float(rng.choice([40.0, 100.0])))
    if pen == "WeightedMCPenalty":
        spec["pen_opts"]["weights"] = None
    if icpt and rng.random() < 0.3:
        # a warm start whose intercept is far from optimal (Newton steps on it overshoot; the line search has to act)
        spec["intercept_start"] = float(rng.choice([-8.0, -6.0, 6.0, 8.0]))
    if solver in ("ProxNewton", "GroupProxNewton") and isinstance(coords[-1], int) and coords[-1] % 3 == 0 \
            and info["intercept"] and df not in ("QuadraticSVC", "Cox"):
        # ... and in rotation for the prox-Newton solvers, on both containers, so that the quick tier meets it
        spec.update(fit_intercept=True, warm="dense", intercept_start=[-8.0, 8.0, -6.0, 6.0][(coords[-1] // 3) % 4])
        if info["sparse"] and K.compatible(solver, df, pen, "csc", True, spec["strategy"]):
            spec["storage"] = "csc" if (coords[-1] // 3) % 2 == 0 else "dense"
    return K.widen(rng, spec, prob=0.1, n_range=(40, 100), p_range=(60, 250))


def run_shard(spec, emit):
    solver, df, seed = spec["solver"], spec["datafit"], spec["seed"]
    if solver == "IRL1":
        return _reweighted(spec, emit)
    for pen in spec["penalties"]:
        for rep in range(spec["reps"]):
            cid = "%s/%s/%s/r%d" % (solver, df, pen, rep)
            if not want(spec, cid):
                continue
            rng = rng_for("C03", seed, solver, str(df), pen, rep)
            cs = gen_spec(rng, solver, df, pen, seed, [solver, str(df), pen, rep])
            if "pen_opts" in cs and cs["pen_opts"].get("weights", 1) is None:
                cs["pen_opts"].pop("weights")
            try:
                run_case(emit, cid, cs, rng, sample=(rep == 0))
            except Exception:
                import traceback
                emit(dict(id=cid, cell="harness", status="inconclusive", obs=dict(tb=traceback.format_exc()[-1500:])))


def _F(case, w):
    try:
        return float(case.ref.objective(w))
    except Exception:
        return np.nan


def _viol(case, mech, detail, **kw):
    d = dict(mechanism=mech, solver=case.solver_name, datafit=case.df_name, penalty=case.pen_name,
             storage=case.storage, fit_intercept=case.fit_intercept, strategy=case.strategy,
             positive=bool(case.spec.get("positive")), detail=detail)
    d.update(kw)
    return d


def run_case(emit, cid, cs, rng, sample=False):
    case = K.Case(cs)
    cell = case.cell()
    base = dict(id=cid, cell=cell, digest=digest(cs))
    if not in_scope(case):
        emit(dict(base, status="skipped", nontrivial=False, hist={"out_of_scope": case.pen_name}))
        return
    info = K.SOLVER_INFO[case.solver_name]
    b_it, b_ep = (info["budget"] + (None,))[:2]
    n_outer = 3
    n_ep = 22
    budget = {b_it: n_outer}
    if b_ep:
        budget[b_ep] = n_ep
    if case.solver_name == "GramCD":
        budget = {b_it: 30}
    if case.solver_name == "MultiTaskBCD":
        budget[b_ep] = 23
    w0, xw0 = case.start(cs["warm"])
    F0 = _F(case, w0)
    out = case.solve(w0, xw0, trace_kinds=("epoch", "extrap", "outer_end", "return"), **budget)
    if out["exc"] is not None:
        emit(dict(base, status="refused", nontrivial=False, obs=dict(exc=repr(out["exc"])[:300], case=case.describe())))
        return
    tr = out["trace"]
    rel = SLACK["objective_rel"]
    viols = []
    counts = dict(stopping_points=0, extrap_events=0, extrap_accepted=0, traces_validated_against_impl=0)
    # ------------------------------------------------------------------ (i) trajectory
    stops = []   # (t, epoch, w, F)
    evs = tr.events
    if case.solver_name == "GramCD":
        seq = [("epoch", dict(t=p["t"], epoch=0, w=p["w"])) for k, p in evs if k == "outer_end"]
        seq_all = [(k, p) for k, p in evs]
    else:
        seq = [(k, p) for k, p in evs if k == "epoch"]
        seq_all = evs
    prevF, prev = F0, ("start", -1, -1)
    changed = False
    for k, p in seq:
        Fw = _F(case, p["w"])
        stops.append((p["t"], p["epoch"], p["w"], Fw))
        counts["stopping_points"] += 1
        if not R.leq(Fw, prevF, rel=rel):
            viols.append(_viol(case, "objective-increases-with-budget",
                               "F %r -> %r between %s and (t=%d, epoch=%d)" % (prevF, Fw, prev, p["t"], p["epoch"]),
                               increase=(Fw - prevF) if np.isfinite(Fw) and np.isfinite(prevF) else None,
                               increase_rel=(Fw - prevF) / (1 + abs(F0)) if np.isfinite(Fw) and np.isfinite(prevF) else None,
                               infeasible=bool(Fw == np.inf), at_epoch=int(p["epoch"])))
        if not R.leq(Fw, F0, rel=rel):
            viols.append(_viol(case, "objective-above-start", "F(start)=%r F(t=%d,epoch=%d)=%r" % (
                F0, p["t"], p["epoch"], Fw), infeasible=bool(Fw == np.inf), at_epoch=int(p["epoch"]),
                increase=(Fw - F0) if np.isfinite(Fw) and np.isfinite(F0) else None,
                increase_rel=(Fw - F0) / (1 + abs(F0)) if np.isfinite(Fw) and np.isfinite(F0) else None))
        if not np.array_equal(p["w"], w0):
            changed = True
        prevF, prev = Fw, ("stop", p["t"], p["epoch"])
    Fret = _F(case, out["w"])
    if not R.leq(Fret, F0, rel=rel):
        viols.append(_viol(case, "objective-above-start", "F(start)=%r F(returned)=%r" % (F0, Fret),
                           infeasible=bool(Fret == np.inf),
                           increase=(Fret - F0) if np.isfinite(Fret) and np.isfinite(F0) else None,
                           increase_rel=(Fret - F0) / (1 + abs(F0)) if np.isfinite(Fret) and np.isfinite(F0) else None))
    # ------------------------------------------------------------------ (ii) accepted extrapolations
    for i, (k, p) in enumerate(seq_all):
        if k != "extrap":
            continue
        counts["extrap_events"] += 1
        nxt = next((q for kk, q in seq_all[i + 1:] if kk in ("epoch", "outer_end")), None)
        if nxt is None:
            continue
        accepted = np.array_equal(nxt["w"], p["w_acc"]) and not np.array_equal(p["w_acc"], p["w"])
        if accepted:
            counts["extrap_accepted"] += 1
            Fb, Fa = _F(case, p["w"]), _F(case, p["w_acc"])
            if not R.leq(Fa, Fb, rel=rel):
                viols.append(_viol(case, "accepted-extrapolation-increases-objective",
                                   "F(before)=%r F(extrapolated)=%r (solver's own: %r vs %r)" % (
                                       Fb, Fa, p.get("p_obj"), p.get("p_obj_acc")),
                                   infeasible=bool(Fa == np.inf), increase=(Fa - Fb) if np.isfinite(Fa) else None))
    # ------------------------------------------------------------------ hook <-> boundary validation
    nondeterministic = (case.solver_name == "GroupBCD" and case.storage != "dense" and case.df_name == "QuadraticGroup")
    if stops and case.solver_name != "GramCD" and not nondeterministic:   # (sparse group Lipschitz: random power method)
        pick = [stops[int(i)] for i in rng.choice(len(stops), size=min(2, len(stops)), replace=False)]
        for (t, e, w_hook, _) in pick:
            wb, xb = case.start(cs["warm"], rng=rng_for("C03", cs["seed"], *cs["coords"])) if False else (w0, xw0)
            b2 = {b_it: t + 1}
            if b_ep:
                b2[b_ep] = e + 1
            # only states of the *last* outer iteration of a run are returned states: re-run with that budget and
            # require the hook state at (t, e) to equal the returned point when no earlier epoch loop broke sooner
            o2 = case.solve(w0, xw0, **b2)
            if o2["exc"] is None:
                if np.array_equal(o2["w"], w_hook):
                    counts["traces_validated_against_impl"] += 1
                else:
                    # the run with budget (t+1, e+1) may legitimately differ only if an earlier outer iteration
                    # used more than e+1 epochs; accept states whose earlier iterations all fit in the budget
                    earlier = [s for s in stops if s[0] < t]
                    if all(s[1] <= e for s in earlier):
                        viols.append(_viol(case, "hook-state-differs-from-boundary-run",
                                           "budget (%d,%d): returned w differs from hook state" % (t + 1, e + 1)))
    # ------------------------------------------------------------------ (iii) boundary prefix chains (no hooks)
    chainF = []
    if nondeterministic:
        pass     # separate runs of this cell use differently rounded Lipschitz constants: not one trajectory
    elif case.solver_name != "GramCD":
        for e in (1, 2, 5, 6, 7, 8, 12, 13, 14, 15):
            b2 = {b_it: 1}
            if b_ep:
                b2[b_ep] = e if case.solver_name != "MultiTaskBCD" else e + 10
            o2 = case.solve(w0, xw0, **b2)
            if o2["exc"] is None:
                chainF.append((e, _F(case, o2["w"])))
    else:
        for k_it in (1, 2, 5, 6, 7, 8, 13, 14):
            o2 = case.solve(w0, xw0, max_iter=k_it)
            if o2["exc"] is None:
                chainF.append((k_it, _F(case, o2["w"])))
    pf = F0
    for e, Fe in chainF:
        if not R.leq(Fe, pf, rel=rel):
            viols.append(_viol(case, "objective-increases-with-budget", "boundary chain: F %r -> %r at budget %d" % (
                pf, Fe, e), infeasible=bool(Fe == np.inf), boundary=True, at_epoch=int(e) - 1,
                increase=(Fe - pf) if np.isfinite(Fe) and np.isfinite(pf) else None,
                increase_rel=(Fe - pf) / (1 + abs(pf)) if np.isfinite(Fe) and np.isfinite(pf) else None))
        pf = Fe
    rec = dict(base, nontrivial=bool(len(stops) >= 3 and changed), count=counts,
               hist={"accepted_extrapolations": counts["extrap_accepted"], "warm": cs["warm"],
                     "size": cs.get("size", "small")})
    if viols:
        rec.update(status="violated", viol=viols[0], viols=viols[:40],
                   obs=dict(case=case.describe(), n_violations=len(viols), all=[v["detail"] for v in viols[:6]],
                            F0=F0, chain=chainF[:12], traj=[(s[0], s[1], s[3]) for s in stops[:30]]))
    else:
        rec["status"] = "held"
    if sample:
        rec["sample"] = dict(case=case.describe(), F_start=F0,
                             trajectory=[(s[0], s[1], s[3]) for s in stops[:12]], boundary_chain=chainF[:6],
                             accepted_extrapolations=counts["extrap_accepted"])
    emit(rec)


def _reweighted(spec, emit):
    """IterativeReweightedL1: the non-convex objective it majorises must not increase across reweightings."""
    from skglm.experimental.reweighted import IterativeReweightedL1
    from skglm.solvers import AndersonCD
    from vlib import compose as C
    seed = spec["seed"]
    for pen in spec["penalties"]:
        for rep in range(spec["reps"]):
            cid = "IRL1/%s/r%d" % (pen, rep)
            if not want(spec, cid):
                continue
            rng = rng_for("C03", seed, "IRL1", pen, rep)
            n, p = int(rng.integers(15, 40)), int(rng.integers(3, 15))
            X = C.make_X(rng, n, p, str(rng.choice(["gauss", "ar"])), rho=0.8)
            y = C.make_target(rng, X, "real")
            from vlib import refmath as RR
            refdf = RR.RefDatafit("quadratic")
            scale = C.ref_alpha_scale(X, y, refdf)
            alpha = float(rng.choice([0.01, 0.1, 0.3])) * scale
            pu, refpen, prm = C.make_penalty(pen, rng, p, alpha)
            base = dict(id=cid, cell="IterativeReweightedL1|Quadratic|%s" % pen, digest=digest(cid, seed))
            try:
                est = IterativeReweightedL1(penalty=pu, solver=AndersonCD(tol=1e-10, fit_intercept=False),
                                            n_reweights=int(rng.integers(3, 8)))
                coefs = []
                orig = est.solver.solve

                def rec_solve(*a, **k):
                    r = orig(*a, **k)
                    coefs.append(np.array(r[0], copy=True))
                    return r
                est.solver.solve = rec_solve
                est.fit(X, y)
            except Exception as e:
                emit(dict(base, status="refused", nontrivial=False, obs=dict(exc=repr(e)[:300])))
                continue
            prob = RR.RefProblem(X, y, refdf, refpen, False)
            Fs = [prob.objective(c) for c in coefs]
            # each surrogate solve is accurate to tol: allow the tolerance-implied margin tol * |dw|_1
            bad = [(i, Fs[i - 1], Fs[i]) for i in range(1, len(Fs))
                   if not RR.leq(Fs[i], Fs[i - 1], rel=1e-9, abs_=1e-8 * np.abs(coefs[i] - coefs[i - 1]).sum())]
            hist_ok = RR.close(np.array(est.loss_history_), np.array(Fs), rel=1e-9)
            rec = dict(base, nontrivial=len(Fs) >= 3, count=dict(reweightings=len(Fs)))
            if bad or not hist_ok:
                rec.update(status="violated",
                           viol=dict(mechanism="reweighting-increases-objective" if bad else "loss-history-differs",
                                     penalty=pen, detail=str(bad[:3]) if bad else "loss_history_ != recomputed"),
                           obs=dict(F=Fs, loss_history=list(map(float, est.loss_history_)), alpha=alpha, n=n, p=p))
            else:
                rec["status"] = "held"
            if rep == 0:
                rec["sample"] = dict(penalty=pen, alpha=alpha, objective_after_each_reweighting=Fs)
            emit(rec)
