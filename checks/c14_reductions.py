"""C14 — general components reduce to the simpler ones they generalise.

Monitor: for every listed pair (general configuration, special case) the compiled accessors of both sides are
evaluated at the same generated points and must agree as identities (1e-9 relative); converged solutions of both
sides must have the same reference objective up to the margin implied by their certificates (tol * |dw|_1).
"""
import warnings
import numpy as np
from numpy.linalg import norm

from vlib import compose as C
from vlib import refmath as R
from vlib.common import rng_for, want, small
from vlib.runner import digest

PROPERTY = "C14"
LEVEL = "exploration"
TECHNIQUE = "runtime monitoring: differential oracle between a general component and the simpler one it must coincide with (function-level identities + certified solution comparison)"
LEVEL_TEXT = ("Each of ~20 (general, special) pairs is evaluated at generated points: value, prox, optimality score, "
              "gradients, Hessians and Lipschitz constants of both compiled sides must be equal to 1e-9 relative; for "
              "solver/estimator pairs both converged solutions must reach the same reference objective within the "
              "margin tol*|dw|_1 implied by their own certificates.")
LEVEL_NOTE = ("large-gamma / large-delta limits use 1e12 and points with |w| << alpha*gamma; solution comparison never "
              "compares coefficients (non-unique minimisers), only certified objective margins")
RULE = ("cases = (pair, instance, accessor); non-trivial = both sides returned finite values at a point where the special "
        "case is not identically zero; distinct = digest(pair, accessor, instance)")
SLACK = {"identity_rel": 1e-9, "solution_margin": "max(tolA, tolB) * |wA - wB|_1 + 1e-12"}
ASSUMPTIONS = ["both sides compiled through compiled_clone in the same process"]
FLOOR = {"quick": 600, "thorough": 10000}
REPS = {"quick": 12, "thorough": 200}

PAIRS = ["wl1_unit~l1", "enet_r1~l1", "wmcp_unit~mcp", "group_singletons~wl1", "sgroup_zero_feat~group", "slope_const~l1",
         "mcp_biggamma~l1", "scad_biggamma~l1", "huber_bigdelta~quadratic", "wquad_unit~quadratic", "wquad_int~replicated",
         "cox_efron~breslow_no_ties", "logisticgroup~logistic", "quadraticgroup~quadratic", "multitask_1task~quadratic",
         "l21_1task~l1", "blockmcp_1task~mcp", "blockscad_1task~scad", "sol:gram~anderson", "sol:estimator~gle",
         "sol:multitask_1task~anderson", "sol:group_singletons~anderson"]


def plan(tier, seed):
    return [dict(name=p, pair=p, reps=REPS[tier] if not p.startswith("sol:") else max(6, REPS[tier] // 2)) for p in PAIRS]


def run_shard(spec, emit):
    pair, seed = spec["pair"], spec["seed"]
    for rep in range(spec["reps"]):
        cid = "%s/r%d" % (pair, rep)
        if not want(spec, cid):
            continue
        rng = rng_for("C14", seed, pair, rep)
        try:
            if pair.startswith("sol:"):
                sol_pair(emit, cid, pair, rng, rep == 0)
            else:
                fun_pair(emit, cid, pair, rng, rep == 0)
        except Exception:
            import traceback
            emit(dict(id=cid, cell=pair, status="inconclusive", obs=dict(tb=traceback.format_exc()[-1800:])))


def cmp_emit(emit, cid, pair, label, a, b, sample=None, nontrivial=True, rel=None):
    rel = SLACK["identity_rel"] if rel is None else rel
    ok = R.close(np.asarray(a, float), np.asarray(b, float), rel=rel) if np.shape(a) == np.shape(b) else False
    rec = dict(id="%s/%s" % (cid, label), cell="%s|%s" % (pair, label), digest=digest(cid, label), nontrivial=bool(nontrivial))
    if ok:
        rec["status"] = "held"
    else:
        rec.update(status="violated",
                   viol=dict(mechanism="general-differs-from-special-case", pair=pair, accessor=label,
                             maxdiff=R.maxdiff(a, b) if np.shape(a) == np.shape(b) else None,
                             detail="%s: general %s vs special %s" % (label, small(a, 5), small(b, 5))),
                   obs=dict(general=small(a, 20), special=small(b, 20)))
    if sample is not None:
        rec["sample"] = sample
    emit(rec)


def fun_pair(emit, cid, pair, rng, sample):
    import skglm.datafits as D
    import skglm.penalties as P
    cc = C.compiled
    p = int(rng.integers(2, 9))
    n = int(rng.integers(5, 20))
    alpha = float(10 ** rng.uniform(-1.5, 0.5))
    w = rng.standard_normal(p) * float(rng.choice([0.1, 1.0, 3.0]))
    w[rng.random(p) < 0.3] = 0.0
    g = rng.standard_normal(p)
    ws = np.arange(p)
    s = float(10 ** rng.uniform(-1, 0.5))
    X = C.make_X(rng, n, p, str(rng.choice(["gauss", "shifted"])), density=float(rng.choice([1.0, 0.5])))
    Xs = C.to_storage(X, "csc")
    sp3 = (Xs.data, Xs.indptr, Xs.indices)
    y = rng.standard_normal(n) + 1.0
    smp = dict(pair=pair, p=p, alpha=alpha, w=w.tolist()) if sample else None

    def pen_suite(A, B, jA=lambda j: j, prox=True, wA=None, sd=True):
        cmp_emit(emit, cid, pair, "value", A.value(w if wA is None else wA), B.value(w), smp, np.any(w))
        if prox:
            cmp_emit(emit, cid, pair, "prox", [A.prox_1d(float(x), s, j) for j, x in enumerate(w + g)],
                     [B.prox_1d(float(x), s, j) for j, x in enumerate(w + g)])
        if sd:
            cmp_emit(emit, cid, pair, "subdiff_distance", A.subdiff_distance(w, g, ws), B.subdiff_distance(w, g, ws))

    if pair == "wl1_unit~l1":
        pos = bool(rng.integers(0, 2))
        if pos:
            w[:] = np.abs(w)
        pen_suite(cc(P.WeightedL1(alpha, np.ones(p), pos)), cc(P.L1(alpha, pos)))
    elif pair == "enet_r1~l1":
        pos = bool(rng.integers(0, 2))
        if pos:
            w[:] = np.abs(w)
        A, B = cc(P.L1_plus_L2(alpha, 1.0, pos)), cc(P.L1(alpha, pos))
        pen_suite(A, B)
        cmp_emit(emit, cid, pair, "alpha_max", A.alpha_max(g), B.alpha_max(g))
    elif pair == "wmcp_unit~mcp":
        gam = float(rng.choice([1.5, 3.0, 10.0]))
        s = min(s, 0.9 * gam)
        pen_suite(cc(P.WeightedMCPenalty(alpha, gam, np.ones(p))), cc(P.MCPenalty(alpha, gam)))
    elif pair == "group_singletons~wl1":
        wts = rng.uniform(0.3, 2, size=p)
        pos = bool(rng.integers(0, 2))
        if pos:
            w[:] = np.abs(w)
        ptr, ind = C.groups_to_ptr([np.array([j]) for j in range(p)])
        A, B = cc(P.WeightedGroupL2(alpha, wts.copy(), ptr, ind, pos)), cc(P.WeightedL1(alpha, wts.copy(), pos))
        cmp_emit(emit, cid, pair, "value", A.value(w), B.value(w), smp, np.any(w))
        cmp_emit(emit, cid, pair, "prox", [A.prox_1group(np.array([x]), s, j)[0] for j, x in enumerate(w + g)],
                 [B.prox_1d(float(x), s, j) for j, x in enumerate(w + g)])
        cmp_emit(emit, cid, pair, "subdiff_distance", A.subdiff_distance(w, g, ws), B.subdiff_distance(w, g, ws))
        # the same with the singletons listed in another order: group k is {perm[k]} and carries the weight of perm[k]
        perm = rng.permutation(p)
        ptr2, ind2 = C.groups_to_ptr([np.array([j]) for j in perm])
        A2 = cc(P.WeightedGroupL2(alpha, wts[perm].copy(), ptr2, ind2, pos))
        cmp_emit(emit, cid, pair, "value[perm]", A2.value(w), B.value(w), None, np.any(w))
        cmp_emit(emit, cid, pair, "prox[perm]", [A2.prox_1group(np.array([(w + g)[j]]), s, k)[0] for k, j in enumerate(perm)],
                 [B.prox_1d(float((w + g)[j]), s, j) for j in perm])
        # the sparse-group penalty with zero group weights is the weighted L1 of its feature weights, whatever the groups
        for style in ("singletons", "perm", "trap"):
            groups = [np.array([j]) for j in perm] if style == "singletons" else C.make_groups(rng, p, style=style)
            ptr3, ind3 = C.groups_to_ptr(groups)
            A3 = cc(P.WeightedL1GroupL2(alpha, np.zeros(len(groups)), wts.copy(), ptr3, ind3))
            B3 = cc(P.WeightedL1(alpha, wts.copy()))
            cmp_emit(emit, cid, pair, "sgroup_value[%s]" % style, A3.value(w), B3.value(w), None, np.any(w))
            cmp_emit(emit, cid, pair, "sgroup_prox[%s]" % style,
                     np.concatenate([A3.prox_1group((w + g)[G], s, k) for k, G in enumerate(groups)]),
                     [B3.prox_1d(float((w + g)[j]), s, j) for G in groups for j in G])
    elif pair == "sgroup_zero_feat~group":
        groups = C.make_groups(rng, p, style=str(rng.choice(["contig", "perm"])))
        ptr, ind = C.groups_to_ptr(groups)
        wg = rng.uniform(0.3, 2, size=len(groups))
        A = cc(P.WeightedL1GroupL2(alpha, wg.copy(), np.zeros(p), ptr, ind))
        B = cc(P.WeightedGroupL2(alpha, wg.copy(), ptr, ind))
        cmp_emit(emit, cid, pair, "value", A.value(w), B.value(w), smp, np.any(w))
        for gi, G in enumerate(groups):
            cmp_emit(emit, cid, pair, "prox_g%d" % gi, A.prox_1group((w + g)[G], s, gi), B.prox_1group((w + g)[G], s, gi))
    elif pair == "slope_const~l1":
        A, B = cc(P.SLOPE(np.full(p, alpha))), cc(P.L1(alpha))
        cmp_emit(emit, cid, pair, "value", A.value(w), B.value(w), smp, np.any(w))
        cmp_emit(emit, cid, pair, "prox", A.prox_vec(w + g, s), [B.prox_1d(float(x), s, j) for j, x in enumerate(w + g)])
    elif pair in ("mcp_biggamma~l1", "scad_biggamma~l1"):
        big = 1e12
        A = cc(P.MCPenalty(alpha, big)) if pair.startswith("mcp") else cc(P.SCAD(alpha, big))
        B = cc(P.L1(alpha))
        cmp_emit(emit, cid, pair, "value", A.value(w), B.value(w), smp, np.any(w), rel=1e-8)
        cmp_emit(emit, cid, pair, "prox", [A.prox_1d(float(x), s, j) for j, x in enumerate(w + g)],
                 [B.prox_1d(float(x), s, j) for j, x in enumerate(w + g)], rel=1e-8)
        cmp_emit(emit, cid, pair, "subdiff_distance", A.subdiff_distance(w, g, ws), B.subdiff_distance(w, g, ws), rel=1e-8)
    elif pair in ("huber_bigdelta~quadratic", "wquad_unit~quadratic", "quadraticgroup~quadratic"):
        groups = C.make_groups(rng, p)
        ptr, ind = C.groups_to_ptr(groups)
        A = cc(D.Huber(1e12)) if pair.startswith("huber") else cc(D.WeightedQuadratic(np.ones(n))) if pair.startswith("wquad") \
            else cc(D.QuadraticGroup(ptr, ind))
        B = cc(D.Quadratic())
        for o in (A, B):
            if hasattr(o, "initialize"):
                o.initialize(X, y)
        A2, B2 = (cc(D.Huber(1e12)) if pair.startswith("huber") else cc(D.WeightedQuadratic(np.ones(n))) if pair.startswith("wquad")
                  else cc(D.QuadraticGroup(ptr, ind))), cc(D.Quadratic())
        for o in (A2, B2):
            if hasattr(o, "initialize_sparse"):
                o.initialize_sparse(*sp3, y)
        Xw = X @ w
        cmp_emit(emit, cid, pair, "value", A.value(y, w, Xw), B.value(y, w, Xw), smp)
        cmp_emit(emit, cid, pair, "gradient_scalar", [A.gradient_scalar(X, y, w, Xw, j) for j in range(p)],
                 [B.gradient_scalar(X, y, w, Xw, j) for j in range(p)])
        cmp_emit(emit, cid, pair, "intercept_update_step", A.intercept_update_step(y, Xw), B.intercept_update_step(y, Xw))
        if pair != "quadraticgroup~quadratic":
            cmp_emit(emit, cid, pair, "get_lipschitz", A.get_lipschitz(X, y), B.get_lipschitz(X, y))
            cmp_emit(emit, cid, pair, "get_lipschitz_sparse", A2.get_lipschitz_sparse(*sp3, y), B2.get_lipschitz_sparse(*sp3, y))
            cmp_emit(emit, cid, pair, "get_global_lipschitz", A.get_global_lipschitz(X, y), B.get_global_lipschitz(X, y))
            cmp_emit(emit, cid, pair, "full_grad_sparse", A2.full_grad_sparse(*sp3, y, Xw), B2.full_grad_sparse(*sp3, y, Xw))
            cmp_emit(emit, cid, pair, "gradient_scalar_sparse", [A2.gradient_scalar_sparse(*sp3, y, Xw, j) for j in range(p)],
                     [B2.gradient_scalar_sparse(*sp3, y, Xw, j) for j in range(p)])
        else:
            cmp_emit(emit, cid, pair, "gradient_g", np.concatenate([A.gradient_g(X, y, w, Xw, gi) for gi in range(len(groups))]),
                     np.concatenate([[B.gradient_scalar(X, y, w, Xw, j) for j in G] for G in groups]))
        if pair.startswith("wquad"):
            cmp_emit(emit, cid, pair, "raw_grad", A.raw_grad(y, Xw), B.raw_grad(y, Xw))
            cmp_emit(emit, cid, pair, "raw_hessian", A.raw_hessian(y, Xw), B.raw_hessian(y, Xw))
            cmp_emit(emit, cid, pair, "gradient", A.gradient(X, y, Xw), B.gradient(X, y, Xw))
    elif pair == "wquad_int~replicated":
        sw = rng.integers(0, 4, size=n).astype(float)
        sw[0] = max(sw[0], 1)
        rep_idx = np.repeat(np.arange(n), sw.astype(int))
        Xr, yr = np.asfortranarray(X[rep_idx]), y[rep_idx]
        A, B = cc(D.WeightedQuadratic(sw)), cc(D.Quadratic())
        A.initialize(X, y)
        B.initialize(Xr, yr)
        cmp_emit(emit, cid, pair, "value", A.value(y, w, X @ w), B.value(yr, w, Xr @ w), smp)
        cmp_emit(emit, cid, pair, "gradient", A.gradient(X, y, X @ w), B.gradient(Xr, yr, Xr @ w))
        cmp_emit(emit, cid, pair, "gradient_scalar", [A.gradient_scalar(X, y, w, X @ w, j) for j in range(p)],
                 [B.gradient_scalar(Xr, yr, w, Xr @ w, j) for j in range(p)])
        cmp_emit(emit, cid, pair, "get_lipschitz", A.get_lipschitz(X, y), B.get_lipschitz(Xr, yr))
        cmp_emit(emit, cid, pair, "get_global_lipschitz", A.get_global_lipschitz(X, y), B.get_global_lipschitz(Xr, yr), rel=1e-8)
        cmp_emit(emit, cid, pair, "intercept_update_step", A.intercept_update_step(y, X @ w), B.intercept_update_step(yr, Xr @ w))
        # the CSC accessors of the weighted datafit against the dense ones of the replicated data (the sparse global
        # constant comes from a power method: 1e-3 relative)
        As = cc(D.WeightedQuadratic(sw))
        As.initialize_sparse(*sp3, y)
        cmp_emit(emit, cid, pair, "get_lipschitz_sparse", As.get_lipschitz_sparse(*sp3, y), B.get_lipschitz(Xr, yr))
        cmp_emit(emit, cid, pair, "get_global_lipschitz_sparse", As.get_global_lipschitz_sparse(*sp3, y),
                 B.get_global_lipschitz(Xr, yr), rel=1e-3)
        cmp_emit(emit, cid, pair, "full_grad_sparse", As.full_grad_sparse(*sp3, y, X @ w), B.gradient(Xr, yr, Xr @ w))
    elif pair == "cox_efron~breslow_no_ties":
        ys = C.make_target(rng, X, "surv", ties=False)
        if int(cid.rsplit("/r", 1)[1]) % 2 == 1 and n >= 6:
            # no two *events* share a time, but censored observations share theirs with events and with each other, in
            # arbitrary row order: Efron's correction only concerns tied events, so the two conventions still coincide
            st = (rng.random(n) < 0.6).astype(float)
            st[:2] = 1.0
            ev = np.where(st == 1)[0]
            tm = np.zeros(n)
            tm[ev] = rng.permutation(len(ev)) + 1.0
            cz = np.where(st == 0)[0]
            tm[cz] = rng.choice(tm[ev], size=len(cz))
            perm = rng.permutation(n)
            ys = np.asfortranarray(np.column_stack([tm, st])[perm])
            X = np.asfortranarray(X[perm])
        A, B = cc(D.Cox(True)), cc(D.Cox(False))
        A.initialize(X, ys)
        B.initialize(X, ys)
        Xw = X @ (w * 0.3)
        cmp_emit(emit, cid, pair, "value", A.value(ys, w, Xw), B.value(ys, w, Xw), smp)
        cmp_emit(emit, cid, pair, "raw_grad", A.raw_grad(ys, Xw), B.raw_grad(ys, Xw))
        cmp_emit(emit, cid, pair, "raw_hessian", A.raw_hessian(ys, Xw), B.raw_hessian(ys, Xw))
        cmp_emit(emit, cid, pair, "gradient", A.gradient(X, ys, Xw), B.gradient(X, ys, Xw))
    elif pair == "logisticgroup~logistic":
        groups = C.make_groups(rng, p, style=str(rng.choice(["contig", "perm"])))
        ptr, ind = C.groups_to_ptr(groups)
        yl = np.sign(y - y.mean())
        yl[yl == 0] = 1
        A, B = cc(D.LogisticGroup(ptr, ind)), cc(D.Logistic())
        A.initialize(X, yl)
        Xw = X @ w
        cmp_emit(emit, cid, pair, "value", A.value(yl, w, Xw), B.value(yl, w, Xw), smp)
        cmp_emit(emit, cid, pair, "raw_grad", A.raw_grad(yl, Xw), B.raw_grad(yl, Xw))
        cmp_emit(emit, cid, pair, "raw_hessian", A.raw_hessian(yl, Xw), B.raw_hessian(yl, Xw))
        gg = np.zeros(p)
        for gi, G in enumerate(groups):
            gg[G] = A.gradient_g(X, yl, w, Xw, gi)
        cmp_emit(emit, cid, pair, "gradient_g", gg, [B.gradient_scalar(X, yl, w, Xw, j) for j in range(p)])
        cmp_emit(emit, cid, pair, "intercept_update_step", A.intercept_update_step(yl, Xw), B.intercept_update_step(yl, Xw))
    elif pair == "multitask_1task~quadratic":
        A, B = cc(D.QuadraticMultiTask()), cc(D.Quadratic())
        Y = np.asfortranarray(y[:, None])
        A.initialize(X, Y)
        B.initialize(X, y)
        W, XW = w[:, None].copy(), (X @ w)[:, None].copy()
        cmp_emit(emit, cid, pair, "value", A.value(Y, W, XW), B.value(y, w, X @ w), smp)
        cmp_emit(emit, cid, pair, "gradient_j", [A.gradient_j(X, Y, W, XW, j)[0] for j in range(p)],
                 [B.gradient_scalar(X, y, w, X @ w, j) for j in range(p)])
        cmp_emit(emit, cid, pair, "get_lipschitz", A.get_lipschitz(X, Y), B.get_lipschitz(X, y))
        cmp_emit(emit, cid, pair, "intercept_update_step", A.intercept_update_step(Y, XW)[0], B.intercept_update_step(y, X @ w))
        A2, B2 = cc(D.QuadraticMultiTask()), cc(D.Quadratic())
        A2.initialize_sparse(*sp3, Y)
        B2.initialize_sparse(*sp3, y)
        cmp_emit(emit, cid, pair, "full_grad_sparse", A2.full_grad_sparse(*sp3, Y, XW)[:, 0], B2.full_grad_sparse(*sp3, y, X @ w))
    elif pair in ("l21_1task~l1", "blockmcp_1task~mcp", "blockscad_1task~scad"):
        gam = float(rng.choice([2.5, 5.0]))
        s = min(s, 0.9 * (gam - 1))
        A, B = {"l21_1task~l1": (P.L2_1(alpha), P.L1(alpha)), "blockmcp_1task~mcp": (P.BlockMCPenalty(alpha, gam), P.MCPenalty(alpha, gam)),
                "blockscad_1task~scad": (P.BlockSCAD(alpha, gam), P.SCAD(alpha, gam))}[pair]
        A, B = cc(A), cc(B)
        W, G = w[:, None].copy(), g[:, None].copy()
        cmp_emit(emit, cid, pair, "value", A.value(W), B.value(w), smp, np.any(w))
        xs = w + g
        xs = xs[xs != 0]
        cmp_emit(emit, cid, pair, "prox", [A.prox_1feat(np.array([x]), s, j)[0] for j, x in enumerate(xs)],
                 [B.prox_1d(float(x), s, j) for j, x in enumerate(xs)])
        cmp_emit(emit, cid, pair, "subdiff_distance", A.subdiff_distance(W, G, ws), B.subdiff_distance(w, g, ws))


# ---------------------------------------------------------------------------------------------------------
def sol_pair(emit, cid, pair, rng, sample):
    import skglm.datafits as D
    import skglm.penalties as P
    import skglm.solvers as S
    import skglm.estimators as E
    cc = C.compiled
    n, p = int(rng.integers(15, 40)), int(rng.integers(3, 12))
    X = C.make_X(rng, n, p, str(rng.choice(["gauss", "ar"])), rho=0.7)
    y = C.make_target(rng, X, "real")
    tol = 1e-8
    icpt = False
    g0 = X.T @ y / n
    alpha = float(rng.choice([0.05, 0.2, 0.5])) * float(np.max(np.abs(g0)))
    wts = rng.uniform(0.4, 2, size=p)
    refdf = R.RefDatafit("quadratic")
    label = "solution"
    with warnings.catch_warnings():
        warnings.simplefilter("ignore")
        if pair == "sol:gram~anderson":
            rep = int(cid.rsplit("/r", 1)[1])
            pen = ["L1", "L1_plus_L2", "MCP"][rep % 3]        # in rotation: the quick tier meets all three
            mk = {"L1": lambda: P.L1(alpha), "L1_plus_L2": lambda: P.L1_plus_L2(alpha, 0.6), "MCP": lambda: P.MCPenalty(alpha, 30.0)}[pen]
            refpen = {"L1": R.RefPenalty("l1", alpha=alpha), "L1_plus_L2": R.RefPenalty("enet", alpha=alpha, l1_ratio=0.6),
                      "MCP": R.RefPenalty("mcp", alpha=alpha, gamma=30.0)}[pen]
            # both from the same user-supplied start in half of the convex cases (the two solvers must solve the same
            # problem from any start, not only from zero)
            w0 = rng.standard_normal(p) * (rng.random(p) < 0.6) if (pen != "MCP" and (rep // 3) % 2 == 0) else None
            wa, _, sa = S.GramCD(tol=tol, max_iter=5000, fit_intercept=False, greedy_cd=bool(rng.integers(0, 2))).solve(
                X, y, None, cc(mk()), *(() if w0 is None else (w0.copy(),)))
            dfb = cc(D.Quadratic())
            wb, _, sb = S.AndersonCD(tol=tol, fit_intercept=False, max_epochs=5000).solve(
                X, y, dfb, cc(mk()), *(() if w0 is None else (w0.copy(), X @ w0)))
            label = "solution[%s%s]" % (pen, "" if w0 is None else ",warm")
        elif pair == "sol:estimator~gle":
            which = ["Lasso", "ElasticNet", "WeightedLasso", "MCPRegression", "SparseLogisticRegression", "ElasticNet_r1"][
                int(cid.rsplit("/r", 1)[1]) % 6]
            pos = bool(rng.integers(0, 2))
            icpt = bool(rng.integers(0, 2))
            kw = dict(tol=tol, fit_intercept=icpt)
            if which == "SparseLogisticRegression":
                y = C.make_target(rng, X, "pm1")
                alpha = 0.1 * float(np.max(np.abs(X.T @ y)) / (2 * n))
                refdf = R.RefDatafit("logistic")
                ea = E.SparseLogisticRegression(alpha=alpha, **kw).fit(X, y)
                eb = E.GeneralizedLinearEstimator(D.Logistic(), P.L1(alpha), S.ProxNewton(tol=tol, fit_intercept=icpt)).fit(X, y)
                refpen = R.RefPenalty("l1", alpha=alpha)
            else:
                mkp = {"Lasso": (lambda: P.L1(alpha, pos), R.RefPenalty("l1", alpha=alpha, positive=pos),
                                 lambda: E.Lasso(alpha=alpha, positive=pos, **kw)),
                       "ElasticNet": (lambda: P.L1_plus_L2(alpha, 0.5, pos), R.RefPenalty("enet", alpha=alpha, l1_ratio=0.5, positive=pos),
                                      lambda: E.ElasticNet(alpha=alpha, l1_ratio=0.5, positive=pos, **kw)),
                       # the elastic net configured as a Lasso (l1_ratio = 1) against the Lasso penalty itself
                       "ElasticNet_r1": (lambda: P.L1(alpha, pos), R.RefPenalty("l1", alpha=alpha, positive=pos),
                                         lambda: E.ElasticNet(alpha=alpha, l1_ratio=1.0, positive=pos, **kw)),
                       "WeightedLasso": (lambda: P.WeightedL1(alpha, wts.copy(), pos),
                                         R.RefPenalty("wl1", alpha=alpha, weights=wts, positive=pos),
                                         lambda: E.WeightedLasso(alpha=alpha, weights=wts.copy(), positive=pos, **kw)),
                       "MCPRegression": (lambda: P.MCPenalty(alpha, 3.0, pos), R.RefPenalty("mcp", alpha=alpha, gamma=3.0, positive=pos),
                                         lambda: E.MCPRegression(alpha=alpha, gamma=3.0, positive=pos, **kw))}[which]
                ea = mkp[2]().fit(X, y)
                eb = E.GeneralizedLinearEstimator(D.Quadratic(), mkp[0](), S.AndersonCD(tol=tol, fit_intercept=icpt)).fit(X, y)
                refpen = mkp[1]
            f = (lambda e: np.r_[np.ravel(e.coef_), np.ravel(np.atleast_1d(e.intercept_))[0]]) if icpt else (lambda e: np.ravel(e.coef_))
            wa, wb, sa, sb = f(ea), f(eb), ea.stop_crit_, eb.stop_crit_
            label = "solution[%s]" % which
            # same code path, same arguments: the results must be identical, not merely equivalent
            cmp_emit(emit, cid, pair, "identical[%s]" % which, wa, wb, None, True, rel=1e-12)
        elif pair == "sol:multitask_1task~anderson":
            refpen = R.RefPenalty("l1", alpha=alpha)
            Y = np.asfortranarray(y[:, None])
            Wa, _, sa = S.MultiTaskBCD(tol=tol, fit_intercept=False, max_epochs=5000).solve(X, Y, cc(D.QuadraticMultiTask()), cc(P.L2_1(alpha)))
            wa = Wa[:, 0]
            wb, _, sb = S.AndersonCD(tol=tol, fit_intercept=False, max_epochs=5000).solve(X, y, cc(D.Quadratic()), cc(P.L1(alpha)))
        else:
            refpen = R.RefPenalty("wl1", alpha=alpha, weights=wts)
            perm = rng.permutation(p) if rng.random() < 0.6 else np.arange(p)     # group g is the singleton {perm[g]}
            ptr, ind = C.groups_to_ptr([np.array([j]) for j in perm])
            dfa = cc(D.QuadraticGroup(ptr, ind))
            wa, _, sa = S.GroupBCD(tol=tol, fit_intercept=False, max_epochs=5000).solve(
                X, y, dfa, cc(P.WeightedGroupL2(alpha, wts[perm].copy(), ptr, ind)))
            label = "solution[%s]" % ("perm" if np.any(perm != np.arange(p)) else "identity")
            wb, _, sb = S.AndersonCD(tol=tol, fit_intercept=False, max_epochs=5000).solve(
                X, y, cc(D.Quadratic()), cc(P.WeightedL1(alpha, wts.copy())))
    prob = R.RefProblem(X, y, refdf, refpen, icpt)
    Fa, Fb = prob.objective(wa), prob.objective(wb)
    conv = sa <= tol and sb <= tol
    margin = max(tol, 1e-300) * float(np.abs(np.asarray(wa) - np.asarray(wb)).sum()) * 1.01 + 1e-12 * (1 + abs(Fb))
    rec = dict(id="%s/%s" % (cid, label), cell="%s|%s" % (pair, label), digest=digest(cid, label), nontrivial=bool(conv),
               count=dict(solution_pairs=1, converged_pairs=int(conv)))
    if conv and refpen.convex and not abs(Fa - Fb) <= margin:
        rec.update(status="violated",
                   viol=dict(mechanism="general-solution-differs-from-special-case", pair=pair, accessor=label,
                             detail="F(general)=%r F(special)=%r margin=%.3g" % (Fa, Fb, margin)),
                   obs=dict(wa=small(wa, 12), wb=small(wb, 12), stop_a=sa, stop_b=sb))
    elif conv and not refpen.convex:
        # non-convex: both must be stationary for the same reference problem (different local minima are legitimate)
        ca, cb = prob.cert_subdiff(wa)[0], prob.cert_subdiff(wb)[0]
        if max(ca, cb) > tol * (1 + 1e-6) + 1e-10:
            rec.update(status="violated", viol=dict(mechanism="general-solution-not-stationary-for-special-problem", pair=pair,
                                                    accessor=label, detail="certs %r %r" % (ca, cb)))
        else:
            rec["status"] = "held"
    else:
        rec["status"] = "held"
    if sample:
        rec["sample"] = dict(pair=pair, objective_general=Fa, objective_special=Fb, stop=[float(sa), float(sb)])
    emit(rec)
