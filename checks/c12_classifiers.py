"""C12 — classifier outputs are consistent with the fitted linear model(s).

Monitors on fitted classifiers (SparseLogisticRegression, LinearSVC, GeneralizedLinearEstimator with Logistic /
QuadraticSVC):
  - predict(X) == classes_[argmax / sign of decision_function(X)], one label per sample;
  - predict_proba rows sum to one, lie in [0, 1] and are monotone in the decision value;
  - renaming / reordering the labels (strings <-> ints <-> {-1,1} <-> {0,1}, reversed order) changes nothing but
    the labels;
  - with > 2 classes, row k of (coef_, intercept_) is the binary one-vs-rest model of class k: it satisfies the
    reference certificate of the binary problem "class k vs rest" and decision values equal X coef_k + intercept_k.
"""
import warnings
import numpy as np

from vlib import compose as C
from vlib import refmath as R
from vlib.common import rng_for, want, small
from vlib.runner import digest

PROPERTY = "C12"
LEVEL = "exploration"
TECHNIQUE = "runtime monitoring: consistency oracles over classifier outputs + reference certificate of each one-vs-rest row"
LEVEL_TEXT = ("Classifiers are fitted on generated data with 2-5 classes, any label type, with and without intercept and "
              "with non-centred features; predictions, probabilities and decision values are checked against each other, "
              "label renamings are replayed, and each one-vs-rest row (intercept included) is certified against the "
              "binary problem of its class by the reference model.")
LEVEL_NOTE = "trusted: vlib/refmath.py certificate; decision boundary ties (|decision| < 1e-9) are excluded from label comparisons"
RULE = ("cases = (classifier, number of classes, label type, intercept, storage, data instance); non-trivial = fit "
        "converged and both classes / several classes are predicted; distinct = digest(case)")
SLACK = {"proba_sum": 1e-12, "cert_rel": 1e-6}
ASSUMPTIONS = ["binary convention of the estimators: classes_ sorted, larger label is the positive class"]
FLOOR = {"quick": 100, "thorough": 1500}
REPS = {"quick": 45, "thorough": 500}
CLFS = ["SparseLogisticRegression", "LinearSVC", "GLE-Logistic", "GLE-QuadraticSVC", "GLE-LogisticGroup"]
_P = [0]        # number of features of the case being built (the group datafit needs its index arrays)


def plan(tier, seed):
    return [dict(name=c, clf=c, reps=REPS[tier]) for c in CLFS]


def make_labels(rng, n, K, X):
    W = rng.standard_normal((X.shape[1], K))
    sc = X @ W + 0.5 * rng.standard_normal((n, K))
    y = np.argmax(sc, axis=1)
    for k in range(K):       # every class present at least twice
        if np.sum(y == k) < 2:
            y[rng.choice(n, 2, replace=False)] = k
    return y


def relabel(y_idx, kind, K, rng):
    if kind == "int":
        names = np.sort(rng.choice(np.arange(-20, 60), K, replace=False))
    elif kind == "pm1" and K == 2:
        names = np.array([-1, 1])
    elif kind == "01" and K == 2:
        names = np.array([0, 1])
    elif kind == "str":
        names = np.array(sorted(["c%02d_%s" % (i, "xyz"[i % 3]) for i in rng.choice(50, K, replace=False)]))
    elif kind == "nonpos":
        # all labels negative or zero (a label is a name, not a sign)
        names = np.sort(rng.choice(np.arange(-9, 1), K, replace=False))
    elif kind == "reversed":
        names = np.arange(K)[::-1] * 3 + 1
    else:
        names = np.arange(K)
    return names[y_idx], names


def build(clf, alpha, Cc, icpt, tol):
    import skglm.estimators as E
    import skglm.datafits as D
    import skglm.penalties as P
    from skglm.solvers import AndersonCD, ProxNewton
    if clf == "SparseLogisticRegression":
        return E.SparseLogisticRegression(alpha=alpha, fit_intercept=icpt, tol=tol, max_iter=100, max_epochs=500)
    if clf == "LinearSVC":
        return E.LinearSVC(C=Cc, tol=tol, max_iter=200, max_epochs=5000)
    if clf == "GLE-Logistic":
        return E.GeneralizedLinearEstimator(D.Logistic(), P.L1(alpha), ProxNewton(tol=tol, fit_intercept=icpt, max_iter=100))
    if clf == "GLE-LogisticGroup":
        # the group-structured logistic datafit used as a classifier (singleton groups with unit weights: the problem is
        # the L1 logistic regression, so the binary certificate below applies unchanged)
        from skglm.solvers import GroupBCD
        ptr, ind = C.groups_to_ptr([np.array([j]) for j in range(_P[0])])
        return E.GeneralizedLinearEstimator(D.LogisticGroup(ptr, ind), P.WeightedGroupL2(alpha, np.ones(_P[0]), ptr, ind),
                                            GroupBCD(tol=tol, fit_intercept=icpt, max_iter=200, max_epochs=5000))
    return E.GeneralizedLinearEstimator(D.QuadraticSVC(), P.IndicatorBox(Cc),
                                        AndersonCD(tol=tol, fit_intercept=False, max_iter=200, max_epochs=5000))


def run_shard(spec, emit):
    clf, seed = spec["clf"], spec["seed"]
    for rep in range(spec["reps"]):
        cid = "%s/r%d" % (clf, rep)
        if not want(spec, cid):
            continue
        rng = rng_for("C12", seed, clf, rep)
        try:
            one(emit, cid, clf, rng, rep == 0)
        except Exception:
            import traceback
            emit(dict(id=cid, cell=clf, status="inconclusive", obs=dict(tb=traceback.format_exc()[-1800:])))


def one(emit, cid, clf, rng, sample):
    n, p = int(rng.integers(25, 60)), int(rng.integers(3, 10))
    K = int(rng.choice([2, 2, 3, 4, 5]))
    if clf == "GLE-LogisticGroup":
        K = 2           # (more classes: the one-vs-rest clone of a GLE is a recorded finding, see C12-gle-multiclass-clone)
    _P[0] = p
    X = C.make_X(rng, n, p, str(rng.choice(["gauss", "shifted", "ar"])), rho=0.7)
    if rng.random() < 0.5:
        X = X + rng.uniform(2, 6)            # non-centred features: a dropped intercept matters
    sparse_in = bool(rng.integers(0, 2)) and clf != "GLE-LogisticGroup"      # (that datafit refuses sparse input)
    Xin = C.to_storage(X, "csc") if sparse_in else X
    icpt = bool(rng.integers(0, 2)) and "SVC" not in clf
    tol = 1e-6
    y_idx = make_labels(rng, n, K, X)
    _, y_idx = np.unique(y_idx, return_inverse=True)     # (re-assignments above may have emptied a class)
    K = int(y_idx.max()) + 1
    kind = str(rng.choice(["int", "str", "pm1", "01", "plain", "nonpos"]))
    y, names = relabel(y_idx, kind, K, rng)
    # the same labels in another storage type (what a label is must not depend on how the array stores it)
    if kind in ("01", "plain") or (kind == "int" and names.min() >= 0):
        dt = str(rng.choice(["int64", "int64", "int32", "int8", "uint8", "uint16", "uint64", "float64"] +
                            (["bool"] if (kind in ("01", "plain") and K == 2) else [])))
        y, names = y.astype(dt), names.astype(dt)
        kind = "%s:%s" % (kind, dt)
    alpha = 0.02 * float(rng.choice([0.3, 1, 3]))
    Cc = float(rng.choice([0.1, 1.0, 5.0]))
    base = dict(id=cid, cell="%s|K=%d|icpt=%d|%s" % (clf, K, int(icpt), "csc" if sparse_in else "dense"),
                digest=digest(cid, small(X, 4)))
    est = build(clf, alpha, Cc, icpt, tol)
    viols = []
    try:
        with warnings.catch_warnings():
            warnings.simplefilter("ignore")
            est.fit(Xin, y)
    except Exception as e:
        emit(dict(base, status="violated", nontrivial=True,
                  viol=dict(mechanism="fit-raises", classifier=clf, n_classes=K, labels=kind, exc=type(e).__name__,
                            detail=repr(e)[:300])))
        return
    common = dict(classifier=clf, n_classes=K, labels=kind, fit_intercept=icpt)
    if not hasattr(est, "classes_"):
        emit(dict(base, status="violated", nontrivial=True,
                  viol=dict(common, mechanism="fitted-classifier-has-no-classes_",
                            detail="%s fitted on labels of kind %s has no classes_ attribute" % (clf, kind))))
        return
    classes = np.asarray(est.classes_)
    if not np.array_equal(classes, np.unique(y)):
        viols.append(dict(common, mechanism="classes_-differs-from-sorted-labels", detail="%s vs %s" % (classes, np.unique(y))))
    # ---------------------------------------------------------------- decision values vs fitted linear model
    coef = np.atleast_2d(est.coef_)
    icp = np.ravel(np.atleast_1d(est.intercept_)).astype(float)
    lin = X @ coef.T + (icp if icp.shape[0] == coef.shape[0] else icp[0] if icp.size else 0.0)
    dec = None
    if hasattr(est, "decision_function"):
        dec = np.asarray(est.decision_function(Xin), float)
        d2 = dec[:, None] if dec.ndim == 1 else dec
        if d2.shape != lin.shape or not np.allclose(d2, lin, rtol=1e-9, atol=1e-9 * (1 + np.max(np.abs(lin)))):
            viols.append(dict(common, mechanism="decision_function-differs-from-linear-model",
                              detail="shapes %s vs %s" % (d2.shape, lin.shape)))
    # ---------------------------------------------------------------- predictions
    try:
        with warnings.catch_warnings():
            warnings.simplefilter("ignore")
            pred = np.asarray(est.predict(Xin))
        if pred.shape != (n,):
            viols.append(dict(common, mechanism="predict-returns-wrong-shape", detail="shape %s for %d samples" % (pred.shape, n)))
        else:
            if lin.shape[1] == 1:
                expect = classes[(lin[:, 0] > 0).astype(int)]
                sure = np.abs(lin[:, 0]) > 1e-9
            else:
                expect = classes[np.argmax(lin, axis=1)]
                srt = np.sort(lin, axis=1)
                sure = (srt[:, -1] - srt[:, -2]) > 1e-9
            if not np.array_equal(pred[sure], expect[sure]):
                viols.append(dict(common, mechanism="predict-differs-from-argmax-of-decision",
                                  detail="%d of %d samples" % (int(np.sum(pred[sure] != expect[sure])), int(sure.sum()))))
    except Exception as e:
        viols.append(dict(common, mechanism="predict-raises", exc=type(e).__name__, detail=repr(e)[:200]))
        pred = None
    # ---------------------------------------------------------------- probabilities
    if hasattr(est, "predict_proba"):
        try:
            P = np.asarray(est.predict_proba(Xin), float)
            if P.shape != (n, K):
                viols.append(dict(common, mechanism="predict_proba-wrong-shape", detail=str(P.shape)))
            else:
                if not (np.all(np.abs(P.sum(axis=1) - 1) <= SLACK["proba_sum"]) and np.all(P >= 0) and np.all(P <= 1)):
                    viols.append(dict(common, mechanism="predict_proba-not-a-distribution",
                                      detail="max |sum-1| = %.3g, min %.3g, max %.3g" % (
                                          np.max(np.abs(P.sum(axis=1) - 1)), P.min(), P.max())))
                # monotone in the decision value: binary -> P[:,1] increasing in lin; OvR -> unnormalised sigmoid of
                # each column increasing, so the argmax of P equals the argmax of the decision values
                if K == 2:
                    o = np.argsort(lin[:, 0])
                    if np.any(np.diff(P[o, 1]) < -1e-12):
                        viols.append(dict(common, mechanism="predict_proba-not-monotone", detail="binary"))
                else:
                    srt = np.sort(lin, axis=1)
                    sure = (srt[:, -1] - srt[:, -2]) > 1e-9
                    if not np.array_equal(np.argmax(P, axis=1)[sure], np.argmax(lin, axis=1)[sure]):
                        viols.append(dict(common, mechanism="predict_proba-not-monotone", detail="argmax differs from decision argmax"))
        except Exception as e:
            viols.append(dict(common, mechanism="predict_proba-raises", exc=type(e).__name__, detail=repr(e)[:200]))
    # ---------------------------------------------------------------- probabilities at far-away query points
    if hasattr(est, "predict_proba"):
        for scale in (30.0, 3000.0):
            Xq = X * scale
            try:
                with np.errstate(all="ignore"), warnings.catch_warnings():
                    warnings.simplefilter("ignore")
                    Pq = np.asarray(est.predict_proba(C.to_storage(Xq, "csc") if sparse_in else Xq), float)
                linq = Xq @ coef.T + (icp if icp.shape[0] == coef.shape[0] else icp[0] if icp.size else 0.0)
                okq = bool(np.all(np.isfinite(Pq)) and np.all(np.abs(Pq.sum(axis=1) - 1) <= 1e-9) and np.all(Pq >= 0)
                           and np.all(Pq <= 1))
                if okq and K == 2:
                    o = np.argsort(linq[:, 0])
                    okq = not np.any(np.diff(Pq[o, 1]) < -1e-12)
                if okq and K > 2 and scale <= 30.0:
                    # within a row the probabilities are ordered like the decision values wherever the sigmoid itself
                    # still separates them in double precision (two classes far on the same side must not be given the
                    # same probability just because both are "small")
                    from scipy.special import expit
                    E_ = expit(linq)
                    for i_ in range(linq.shape[0]):
                        if np.max(np.abs(linq[i_])) > 600:
                            continue
                        o_ = np.argsort(linq[i_])
                        strict = np.diff(E_[i_, o_]) > 0
                        if np.any(np.diff(Pq[i_, o_])[strict] <= 0):
                            viols.append(dict(common, mechanism="predict_proba-not-monotone", query_scale=scale,
                                              detail="row %d: decision values %s get probabilities %s" % (
                                                  i_, small(linq[i_, o_], 6), small(Pq[i_, o_], 6))))
                            break
                    if viols and viols[-1].get("mechanism") == "predict_proba-not-monotone":
                        break
                if not okq:
                    viols.append(dict(common, mechanism="predict_proba-not-a-distribution", query_scale=scale,
                                      detail="query points with |decision| up to %.3g: rows not finite / not summing to one / "
                                             "not monotone" % float(np.max(np.abs(linq)))))
                    break
            except Exception as e:
                viols.append(dict(common, mechanism="predict_proba-raises", exc=type(e).__name__, detail=repr(e)[:200]))
                break
    # ---------------------------------------------------------------- one-vs-rest rows are the binary models
    rows = coef.shape[0]
    n_conv = 0
    if rows != (1 if K == 2 else K):
        viols.append(dict(common, mechanism="coef_-wrong-number-of-rows", detail="%d rows for %d classes" % (rows, K)))
    else:
        for k in range(rows):
            pos_class = classes[1] if K == 2 else classes[k]
            ypm = np.where(y == pos_class, 1.0, -1.0)
            bk = float(icp[k]) if icp.shape[0] == rows else float(icp[0]) if icp.size else 0.0
            if "SVC" in clf:
                A = (X * ypm[:, None]).T
                prob = R.RefProblem(A, ypm, R.RefDatafit("svc"), R.RefPenalty("box", alpha=Cc), False)
                dual = np.atleast_2d(est.dual_coef_)[k]
                cert = prob.cert_subdiff(dual)[0]
                beta = (ypm * dual) @ X
                if not np.allclose(coef[k], beta, rtol=1e-8, atol=1e-9 * (1 + np.max(np.abs(beta)))):
                    viols.append(dict(common, mechanism="ovr-row-is-not-the-primal-image-of-its-dual", row=k,
                                      detail="row %d" % k))
                ib = 0.0
            else:
                prob = R.RefProblem(X, ypm, R.RefDatafit("logistic"), R.RefPenalty("l1", alpha=alpha), icpt)
                ck = np.r_[coef[k], bk] if icpt else coef[k]
                cert, per, ib = prob.cert_subdiff(ck)
                if not icpt and bk != 0:
                    viols.append(dict(common, mechanism="non-zero-intercept-without-fit_intercept", row=k, detail=str(bk)))
            slack = 1e-10 * (1 + float(np.max(np.abs(prob.gradient(dual if "SVC" in clf else ck)))))
            if K > 2:
                # the separately fitted binary model "class k vs rest" (same hyper-parameters, same deterministic
                # solver) must coincide with row k, whether or not the budget sufficed to converge
                bin_est = build(clf, alpha, Cc, icpt, tol)
                with warnings.catch_warnings():
                    warnings.simplefilter("ignore")
                    bin_est.fit(Xin, ypm)
                cb = np.ravel(bin_est.coef_)
                bb = float(np.ravel(np.atleast_1d(bin_est.intercept_))[0])
                sc = 1e-8 * (1 + float(np.max(np.abs(cb))))
                if not (np.allclose(coef[k], cb, rtol=1e-8, atol=sc) and abs(bk - bb) <= 1e-8 * (1 + abs(bb))):
                    viols.append(dict(common, mechanism="ovr-row-differs-from-separately-fitted-binary-model", row=k,
                                      detail="row %d: max coef diff %.3g, intercept %r vs %r" % (
                                          k, float(np.max(np.abs(coef[k] - cb))), bk, bb)))
                    break
                converged = getattr(bin_est, "stop_crit_", np.inf) <= tol
            else:
                converged = getattr(est, "stop_crit_", np.inf) <= tol
            if not converged:
                continue
            n_conv += 1
            if not R.leq(cert, tol * (1 + 1e-6) + slack, rel=0.0):
                viols.append(dict(common, mechanism="ovr-row-is-not-the-binary-model-of-its-class", row=k, cert=cert,
                                  component="intercept" if ib >= cert * 0.999 and ib > 0 else "coefficients",
                                  detail="row %d (class %s): violation of the binary one-vs-rest problem = %.3g (tol %g)" % (
                                      k, pos_class, cert, tol)))
                break
    # ---------------------------------------------------------------- relabelling
    kind2 = str(rng.choice(["reversed", "str", "int"]))
    y2, names2 = relabel(y_idx, kind2, K, rng)
    try:
        est2 = build(clf, alpha, Cc, icpt, tol)
        with warnings.catch_warnings():
            warnings.simplefilter("ignore")
            est2.fit(Xin, y2)
            pred2 = np.asarray(est2.predict(Xin))
        if pred is not None and pred.shape == (n,) and pred2.shape == (n,):
            # map predictions back to class indices through the naming
            idx1 = np.array([int(np.where(names == v)[0][0]) for v in pred])
            idx2 = np.array([int(np.where(names2 == v)[0][0]) for v in pred2])
            lin2 = X @ np.atleast_2d(est2.coef_).T + np.ravel(np.atleast_1d(est2.intercept_))[: np.atleast_2d(est2.coef_).shape[0]] \
                if np.ravel(np.atleast_1d(est2.intercept_)).size == np.atleast_2d(est2.coef_).shape[0] else \
                X @ np.atleast_2d(est2.coef_).T + np.ravel(np.atleast_1d(est2.intercept_))[0]
            if lin.shape[1] == 1:
                margin = np.minimum(np.abs(lin[:, 0]), np.abs(lin2[:, 0]))
            else:
                s1, s2 = np.sort(lin, axis=1), np.sort(lin2, axis=1)
                margin = np.minimum(s1[:, -1] - s1[:, -2], s2[:, -1] - s2[:, -2])
            sure = margin > 1e-3
            if not np.array_equal(idx1[sure], idx2[sure]):
                viols.append(dict(common, mechanism="relabelling-changes-predictions", relabel=kind2,
                                  detail="%d of %d confident samples change class after renaming labels to %s" % (
                                      int(np.sum(idx1[sure] != idx2[sure])), int(sure.sum()), kind2)))
    except Exception as e:
        viols.append(dict(common, mechanism="relabelled-fit-raises", relabel=kind2, exc=type(e).__name__, detail=repr(e)[:200]))
    rec = dict(base, nontrivial=bool(pred is not None and len(np.unique(pred)) >= 2),
               count=dict(fits=2, ovr_rows_certified=n_conv), hist={"labels": kind, "K": K})
    if viols:
        rec.update(status="violated", viol=viols[0], viols=viols,
                   obs=dict(n=n, p=p, K=K, labels=kind, alpha=alpha, C=Cc, all=[v["detail"] for v in viols[:6]],
                            intercept=small(icp, 6)))
    else:
        rec["status"] = "held"
    if sample:
        rec["sample"] = dict(classifier=clf, n_classes=K, labels=[str(v) for v in names], fit_intercept=icpt,
                             coef_shape=list(coef.shape), intercept=small(icp, 6))
    emit(rec)
