"""C08 — the optimality measure is sound: zero exactly at stationary points.

Monitor: the compiled penalty's subdiff_distance (and the solvers' prox-fixed-point scores) are evaluated at
generated (w, grad) — coordinates on kinks and region boundaries, gradients on interval ends, zero weights,
positivity flags, group/row structure, working sets that are permuted subsets — and compared with the reference
distance to the regular subdifferential; constructed prox fixed points must score zero; for convex penalties a
zero score must be a fixed point; infeasible points under a positivity flag must score +inf; unpenalised
features must not change value().
"""
import numpy as np
from numpy.linalg import norm

from vlib import refmath as R
from vlib import compose as C
from vlib.common import rng_for, small, fmt_exc
from vlib.runner import digest

PROPERTY = "C08"
LEVEL = "exploration"
TECHNIQUE = "runtime monitoring: reference subdifferential-distance oracle + constructed prox fixed points on every compiled penalty"
LEVEL_TEXT = ("Every compiled penalty's optimality score is executed on generated points that sit on every kink / region "
              "boundary of the penalty and compared (1e-9 relative, inf must equal inf) with an independent model of the "
              "distance to the regular subdifferential; fixed points of the prox-gradient map are constructed from the "
              "reference prox and must score zero; zero scores of convex penalties must be fixed points.")
LEVEL_NOTE = ("trusted: vlib/refmath.py subdifferentials and proxes; float64")
RULE = ("cases = (penalty, params, w, grad, working set, clause); w coordinates drawn from kinks {0, +-alpha, +-alpha*gamma, "
        "box bounds} and random values, grad from {0, interval ends, random}; non-trivial = w has a non-zero entry or "
        "grad != 0; distinct = digest(penalty, clause, params, w, grad)")
SLACK = {"rel": 1e-9, "zero_score": 1e-12, "fixed_point_residual": 1e-7}
ASSUMPTIONS = ["reference subdifferential model in vlib/refmath.py"]
FLOOR = {"quick": 3000, "thorough": 40000}
N_CFG = {"quick": 10, "thorough": 140}

SEP = ["L1", "L1_plus_L2", "WeightedL1", "MCPenalty", "WeightedMCPenalty", "SCAD", "IndicatorBox", "L0_5", "L2_3",
       "LogSumPenalty", "PositiveConstraint"]
GRP = ["WeightedGroupL2"]
ROW = ["L2_1", "L2_05", "BlockMCPenalty", "BlockSCAD"]
POSFLAG = ("L1", "L1_plus_L2", "WeightedL1", "MCPenalty", "WeightedMCPenalty", "WeightedGroupL2")


def plan(tier, seed):
    return [dict(name=n, n_cfg=N_CFG[tier]) for n in SEP + GRP + ROW + ["WeightedL1GroupL2"]]


def _ps(prm):
    return {k: (small(v, 6) if isinstance(v, np.ndarray) else v) for k, v in prm.items()}


def _rec(emit, cid, cell, ok, name, clause, ps, w, g, got, ref, sample=None, nontrivial=True, extra=None):
    rec = dict(id=cid, cell=cell, nontrivial=bool(nontrivial),
               digest=digest(cell, clause, ps, small(w, 64), small(g, 64)))
    if ok:
        rec["status"] = "held"
    else:
        rec.update(status="violated",
                   viol=dict(mechanism=clause, penalty=name, positive=ps.get("positive"),
                             maxdiff=R.maxdiff(got, ref) if ref is not None else None,
                             detail="got %s expected %s" % (small(got, 6), small(ref, 6) if ref is not None else "-")),
                   obs=dict(params=ps, w=small(w, 24), grad=small(g, 24), got=small(got, 24),
                            ref=small(ref, 24) if ref is not None else None, **(extra or {})))
    if sample is not None:
        rec["sample"] = sample
    emit(rec)


def _exc(emit, cid, cell, name, clause, e, ps, w, g):
    emit(dict(id=cid, cell=cell, status="violated", nontrivial=True, digest=digest(cid),
              viol=dict(mechanism="score-raises", penalty=name, clause=clause, exc=type(e).__name__,
                        detail=fmt_exc(e)),
              obs=dict(params=ps, w=small(w, 24), grad=small(g, 24))))


def _agree(got, ref):
    got = np.asarray(got, float)
    ref = np.asarray(ref, float)
    if got.shape != ref.shape or np.isnan(got).any():
        return False
    fin = np.isfinite(ref)
    if not np.array_equal(np.isfinite(got), fin):
        return False
    if not np.array_equal(got[~fin], ref[~fin]):
        return False
    return bool(np.all(np.abs(got[fin] - ref[fin]) <= SLACK["rel"] * (1 + np.abs(ref[fin]))))


def run_shard(spec, emit):
    name, seed = spec["name"], spec["seed"]
    for cfg in range(spec["n_cfg"]):
        rng = rng_for("C08", seed, name, cfg)
        base = "%s/c%d" % (name, cfg)
        if name in SEP:
            _sep(emit, name, rng, base, cfg == 0)
        elif name in GRP or name == "WeightedL1GroupL2":
            _grp(emit, name, rng, base, cfg == 0)
        else:
            _row(emit, name, rng, base, cfg == 0)


def _kinks(name, prm):
    a = prm.get("alpha", 1.0)
    k = [0.0]
    if name in ("MCPenalty", "WeightedMCPenalty"):
        k += [a * prm["gamma"], -a * prm["gamma"]]
    if name == "SCAD":
        k += [a, -a, a * prm["gamma"], -a * prm["gamma"]]
    if name == "IndicatorBox":
        k += [a]
    return k


def _sep(emit, name, rng, base, first):
    p = int(rng.integers(3, 9))
    alpha = float(10 ** rng.uniform(-2, 1))
    positive = bool(rng.integers(0, 2)) if name in POSFLAG else False
    opts = {}
    if name in ("WeightedL1", "WeightedMCPenalty"):
        wts = rng.uniform(0.2, 3.0, size=p)
        if name == "WeightedL1":
            wts[rng.choice(p, 1 + p // 4, replace=False)] = 0.0
        opts["weights"] = wts
    if name == "L1_plus_L2":
        opts["l1_ratio"] = float(rng.choice([0.0, 0.3, 1.0]))
    pen, ref, prm = C.make_penalty(name, rng, p, alpha, positive=positive, **opts)
    cp = C.compiled(pen)
    ps = _ps(prm)
    kinks = _kinks(name, prm)
    all_ws = np.arange(p)
    for k in range(10):
        cid = "%s/e%d" % (base, k)
        # ---- point
        w = rng.standard_normal(p) * float(rng.choice([0.1, 1.0, 10.0]))
        onk = rng.random(p) < 0.5
        w[onk] = rng.choice(kinks, size=int(onk.sum()))
        feasible = True
        if name == "IndicatorBox":
            w = np.clip(np.abs(w), 0, alpha)
            w[onk] = rng.choice([0.0, alpha], size=int(onk.sum()))
            if k % 3 == 0:
                feasible = False          # outside the box the subdifferential is empty: score must be +inf
                w[0] = alpha * 1.5 if k % 2 else -0.1 * alpha
        if name == "PositiveConstraint" or positive:
            if k % 3 == 0:
                feasible = False          # keep some negative entries: score must be +inf there
                if not np.any(w < 0):
                    w[0] = -abs(w[0]) - 0.1
            else:
                w = np.abs(w)
        # ---- gradient: 0, interval ends, random
        g = rng.standard_normal(p) * float(rng.choice([0.1, 1.0, 10.0])) * alpha
        mode = k % 4
        if mode == 0:
            g[:] = 0.0
        elif mode == 1:
            # put -g on an end of the subdifferential interval: dist must be exactly ~0 there
            g = _subgrad_end(ref, w, rng)
        ws = all_ws if k % 2 == 0 else rng.permutation(p)[: max(1, p // 2)]
        try:
            got = np.asarray(cp.subdiff_distance(w, np.ascontiguousarray(g[ws]), ws.astype(np.int64)), float)
        except Exception as e:
            _exc(emit, cid, name + ".subdiff_distance", name, "distance", e, ps, w, g)
            continue
        refd = ref.dist(w, g)[ws]
        sample = dict(penalty=name, params=ps, w=w.tolist(), grad=g.tolist(), ws=ws.tolist(), score=got.tolist(),
                      reference=[float(v) if np.isfinite(v) else str(v) for v in refd]) if (first and k == 1) else None
        clause = "score-differs-from-subdifferential-distance" if feasible else "score-at-infeasible-point"
        _rec(emit, cid, name + ".subdiff_distance", _agree(got, refd), name, clause, ps, w, g, got, refd, sample,
             nontrivial=bool(np.any(w) or np.any(g)), extra=dict(ws=ws.tolist(), feasible=feasible))
        # ---- zero score of a convex penalty must be a prox-gradient fixed point
        if ref.convex and feasible:
            L = float(10 ** rng.uniform(-1, 1))
            bad = []
            for idx, j in enumerate(ws):
                if got[idx] <= SLACK["zero_score"] * (1 + abs(g[j])):
                    u, _ = ref.prox_1d(w[j] - g[j] / L, 1 / L, j)
                    if abs(u - w[j]) > SLACK["fixed_point_residual"] * (1 + abs(w[j])):
                        bad.append((int(j), float(u)))
            _rec(emit, cid + "/conv", name + ".zero_score_is_fixed_point", not bad, name,
                 "zero-score-at-non-fixed-point", ps, w, g, bad, None, nontrivial=True)
    # ---- constructed fixed points: w = prox(x, s)  =>  score(w, (w - x)/s) == 0
    for k in range(8):
        cid = "%s/f%d" % (base, k)
        s = float(10 ** rng.uniform(-1.5, 1))
        if name in ("MCPenalty", "WeightedMCPenalty"):
            s = min(s, 0.9 * prm["gamma"] / max(1.0, float(np.max(prm.get("weights", [1.0])))))
        if name == "SCAD":
            s = min(s, 0.9 * (prm["gamma"] - 1))
        x = rng.standard_normal(p) * float(rng.choice([0.3, 3.0, 30.0])) * max(alpha * s, 1e-3)
        w = np.array([ref.prox_1d(float(x[j]), s, j)[0] for j in range(p)])
        g = (w - x) / s
        try:
            got = np.asarray(cp.subdiff_distance(w, g, all_ws.astype(np.int64)), float)
        except Exception as e:
            _exc(emit, cid, name + ".fixed_point_score", name, "fixed-point", e, ps, w, g)
            continue
        # constructed points of non-convex penalties come from a brute-force argmin (accuracy ~1e-8 relative)
        tolc = 1e-8 if ref.convex else 1e-5
        ok = bool(np.all(got <= tolc * (1 + np.abs(g) + np.abs(x) / s)))
        _rec(emit, cid, name + ".fixed_point_score", ok, name, "prox-fixed-point-has-nonzero-score", ps, w, g, got,
             np.zeros(p), nontrivial=bool(np.any(w)), extra=dict(x=x.tolist(), step=s))
        # the solver-side fixed point score must be zero as well
        try:
            from skglm.solvers.common import dist_fix_point_cd
            lips = np.full(p, 1.0 / s)
            sc = np.asarray(dist_fix_point_cd(w, g, lips, cp, cp, all_ws.astype(np.int64)), float)
            okf = bool(np.all(sc <= tolc * (1 + np.abs(w))))
            _rec(emit, cid + "/cd", name + ".dist_fix_point_cd", okf, name, "fixpoint-score-nonzero-at-fixed-point",
                 ps, w, g, sc, np.zeros(p), nontrivial=bool(np.any(w)), extra=dict(step=s))
            # and at a random point it must equal the reference residual (unique minimiser assumed; ties tolerated
            # through the objective)
            w2 = w + rng.standard_normal(p) * 0.3
            if name == "IndicatorBox":
                w2 = np.clip(w2, 0, alpha)
            if name == "PositiveConstraint" or positive:
                w2 = np.abs(w2)
            g2 = rng.standard_normal(p)
            sc2 = np.asarray(dist_fix_point_cd(w2, g2, lips, cp, cp, all_ws.astype(np.int64)), float)
            refr = np.zeros(p)
            for j in range(p):
                xx = w2[j] - s * g2[j]
                u, vmin = ref.prox_1d(xx, s, j)
                refr[j] = abs(w2[j] - u)
                if abs(sc2[j] - refr[j]) > 1e-7 * (1 + abs(w2[j])):
                    u_repo = w2[j] - np.sign(w2[j] - u) * sc2[j] if sc2[j] else w2[j]
                    for cand in (w2[j] - sc2[j], w2[j] + sc2[j]):
                        if R.leq(float(ref.prox_obj_1d(cand, xx, s, j)), vmin, rel=1e-10):
                            refr[j] = sc2[j]     # a tie: the repo's point is also a global minimiser
            okr = bool(np.all(np.abs(sc2 - refr) <= 1e-6 * (1 + np.abs(w2))))
            _rec(emit, cid + "/cdr", name + ".dist_fix_point_cd", okr, name, "fixpoint-score-differs-from-reference",
                 ps, w2, g2, sc2, refr, nontrivial=True, extra=dict(step=s))
            # on a working set that is a permuted subset (gradient and Lipschitz constants indexed by position, w and the
            # penalty by feature, as the solvers' inner loops do) the scores are those of the same features
            if p >= 2:
                sub = rng.permutation(p)[: max(1, p // 2)].astype(np.int64)
                lips_v = 1.0 / (s * rng.uniform(0.5, 1.0, size=p))      # different per feature, all admissible (<= s)
                full = np.asarray(dist_fix_point_cd(w2, g2, lips_v, cp, cp, all_ws.astype(np.int64)), float)
                part = np.asarray(dist_fix_point_cd(w2, g2[sub], lips_v[sub], cp, cp, sub), float)
                _rec(emit, cid + "/cdws", name + ".dist_fix_point_cd", bool(np.all(np.abs(part - full[sub]) <= 1e-12 * (1 + np.abs(w2[sub])))),
                     name, "fixpoint-score-depends-on-working-set", ps, w2, g2, part, full[sub], nontrivial=True,
                     extra=dict(step=s, ws=sub.tolist()))
        except Exception as e:
            _exc(emit, cid + "/cd", name + ".dist_fix_point_cd", name, "fixed-point-cd", e, ps, w, g)
    # ---- unpenalised features do not contribute to value()
    try:
        flags = np.asarray(cp.is_penalized(p), bool)
        w = rng.standard_normal(p)
        if name == "IndicatorBox":
            w = np.clip(np.abs(w), 0, alpha)
        if name == "PositiveConstraint" or positive:
            w = np.abs(w)
        v0 = float(cp.value(w))
        bad = []
        for j in np.where(~flags)[0]:
            w2 = w.copy()
            w2[j] = abs(w2[j]) * 7 + 1
            if not R.close(float(cp.value(w2)), v0, rel=1e-12):
                bad.append(int(j))
        vref = ref.value(w)
        _rec(emit, base + "/unpen", name + ".is_penalized_vs_value", not bad and R.close(v0, vref, rel=1e-9), name,
             "unpenalised-feature-changes-value-or-value-differs", ps, w, flags, [v0, bad], [vref, []],
             nontrivial=True)
    except Exception as e:
        _exc(emit, base + "/unpen", name + ".is_penalized_vs_value", name, "value", e, ps, [], [])


def _subgrad_end(ref, w, rng):
    """a gradient g such that -g_j is an end point (or the single element) of the subdifferential at w_j."""
    p = len(w)
    g = np.zeros(p)
    for j in range(p):
        # search numerically: dist(-g) == 0 on an interval; take its boundary via bisection along a ray
        lo, hi = 0.0, 1.0
        sgn = rng.choice([-1.0, 1.0])
        wj = np.zeros(p)
        wj[:] = w

        def d(t):
            gg = np.zeros(p)
            gg[j] = t
            return ref.dist(wj, gg)[j]
        # find a point with zero distance first (golden-free: scan)
        ts = np.linspace(-50, 50, 2001) * max(1.0, ref.p.get("alpha", 1.0))
        ds = np.array([d(t) for t in ts[::50]])
        if not np.isfinite(ds).all():
            g[j] = 0.0
            continue
        t0 = ts[::50][int(np.argmin(ds))]
        # minimise d locally by ternary search
        a, b = t0 - 3 * max(1.0, ref.p.get("alpha", 1.0)), t0 + 3 * max(1.0, ref.p.get("alpha", 1.0))
        for _ in range(80):
            m1, m2 = a + (b - a) / 3, b - (b - a) / 3
            if d(m1) <= d(m2):
                b = m2
            else:
                a = m1
        tz = 0.5 * (a + b)
        if d(tz) > 1e-9:
            g[j] = tz
            continue
        # walk to the interval end in direction sgn
        lo, hi = tz, tz + sgn * 1e3 * max(1.0, ref.p.get("alpha", 1.0))
        if d(hi) == 0:
            g[j] = tz
            continue
        for _ in range(200):
            mid = 0.5 * (lo + hi)
            if d(mid) == 0:
                lo = mid
            else:
                hi = mid
        g[j] = lo
    return g


def _grp(emit, name, rng, base, first):
    p = int(rng.integers(3, 10))
    groups = C.make_groups(rng, p, style=str(rng.choice(["contig", "perm"])))
    ng = len(groups)
    alpha = float(10 ** rng.uniform(-2, 1))
    positive = bool(rng.integers(0, 2)) if name == "WeightedGroupL2" else False
    opts = {}
    if name == "WeightedGroupL2":
        wts = rng.uniform(0.2, 3.0, size=ng)
        if rng.random() < 0.5:
            wts[int(rng.integers(0, ng))] = 0.0
        opts["weights"] = wts
    pen, ref, prm = C.make_penalty(name, rng, p, alpha, groups=groups, positive=positive, **opts)
    cp = C.compiled(pen)
    ps = _ps(prm)
    ps["groups"] = [g.tolist() for g in groups]
    has_sd = hasattr(cp, "subdiff_distance")
    for k in range(10):
        cid = "%s/e%d" % (base, k)
        w = rng.standard_normal(p) * float(rng.choice([0.1, 1.0, 10.0]))
        for gi, G in enumerate(groups):
            if rng.random() < 0.4:
                w[G] = 0.0
            elif rng.random() < 0.3:
                w[G[0]] = 0.0           # a zero coordinate inside a non-zero group
        feasible = True
        if positive:
            if k % 3 == 0:
                feasible = False
                nz = [G for G in groups if np.any(w[G])]
                if nz:
                    w[nz[0][0]] = -1.0
                else:
                    w[groups[0][0]] = -1.0
            else:
                w = np.abs(w)
        g = rng.standard_normal(p) * float(rng.choice([0.1, 1.0, 10.0])) * alpha
        if k % 4 == 0:
            g[:] = 0.0
        ws = np.arange(ng) if k % 2 == 0 else rng.permutation(ng)[: max(1, ng // 2)]
        gst = np.concatenate([g[groups[int(gi)]] for gi in ws])
        if has_sd:
            try:
                got = np.asarray(cp.subdiff_distance(w, np.ascontiguousarray(gst), ws.astype(np.int64)), float)
            except Exception as e:
                _exc(emit, cid, name + ".subdiff_distance", name, "distance", e, ps, w, g)
                continue
            refd = ref.dist(w, g)[ws]
            sample = dict(penalty=name, params=ps, w=w.tolist(), grad=g.tolist(), ws=ws.tolist(),
                          score=got.tolist(), reference=[float(v) if np.isfinite(v) else str(v) for v in refd]) \
                if (first and k == 1) else None
            clause = "score-differs-from-subdifferential-distance" if feasible else "score-at-infeasible-point"
            _rec(emit, cid, name + ".subdiff_distance", _agree(got, refd), name, clause, ps, w, g, got, refd, sample,
                 nontrivial=bool(np.any(w) or np.any(g)), extra=dict(ws=ws.tolist(), feasible=feasible))
    for k in range(8):
        cid = "%s/f%d" % (base, k)
        s = float(10 ** rng.uniform(-1.5, 1))
        x = rng.standard_normal(p) * float(rng.choice([0.3, 3.0, 30.0])) * max(alpha * s, 1e-3)
        w = np.zeros(p)
        for gi, G in enumerate(groups):
            w[G] = ref.prox_block(x[G], s, gi)[0]
        g = (w - x) / s
        allg = np.arange(ng).astype(np.int64)
        gst = np.concatenate([g[G] for G in groups])
        if has_sd:
            try:
                got = np.asarray(cp.subdiff_distance(w, gst, allg), float)
                ok = bool(np.all(got <= 1e-8 * (1 + norm(g) + norm(x) / s)))
                _rec(emit, cid, name + ".fixed_point_score", ok, name, "prox-fixed-point-has-nonzero-score", ps, w, g,
                     got, np.zeros(ng), nontrivial=bool(np.any(w)), extra=dict(step=s))
            except Exception as e:
                _exc(emit, cid, name + ".fixed_point_score", name, "fixed-point", e, ps, w, g)
        try:
            from skglm.solvers.common import dist_fix_point_bcd
            lips = np.full(ng, 1.0 / s)
            sc = np.asarray(dist_fix_point_bcd(w, gst, lips, cp, cp, allg), float)
            _rec(emit, cid + "/bcd", name + ".dist_fix_point_bcd", bool(np.all(sc <= 1e-8 * (1 + norm(w)))), name,
                 "fixpoint-score-nonzero-at-fixed-point", ps, w, g, sc, np.zeros(ng), nontrivial=bool(np.any(w)),
                 extra=dict(step=s))
            w2 = w + rng.standard_normal(p) * 0.3
            if positive:
                w2 = np.abs(w2)
            g2 = rng.standard_normal(p)
            gst2 = np.concatenate([g2[G] for G in groups])
            sc2 = np.asarray(dist_fix_point_bcd(w2, gst2, lips, cp, cp, allg), float)
            refr = np.array([norm(w2[G] - ref.prox_block(w2[G] - s * g2[G], s, gi)[0])
                             for gi, G in enumerate(groups)])
            _rec(emit, cid + "/bcdr", name + ".dist_fix_point_bcd",
                 bool(np.all(np.abs(sc2 - refr) <= 1e-7 * (1 + norm(w2)))), name,
                 "fixpoint-score-differs-from-reference", ps, w2, g2, sc2, refr, nontrivial=True, extra=dict(step=s))
            if ng >= 2:
                subg = rng.permutation(ng)[: max(1, ng // 2)].astype(allg.dtype)
                lips_v = 1.0 / (s * rng.uniform(0.5, 1.0, size=ng))
                full = np.asarray(dist_fix_point_bcd(w2, gst2, lips_v, cp, cp, allg), float)
                gsub = np.concatenate([g2[groups[gi]] for gi in subg])
                # (the function returns an array of n_groups slots of which the first len(ws) are used, by position)
                part = np.asarray(dist_fix_point_bcd(w2, gsub, lips_v[subg], cp, cp, subg), float)[: len(subg)]
                _rec(emit, cid + "/bcdws", name + ".dist_fix_point_bcd", bool(np.all(np.abs(part - full[subg]) <= 1e-12 * (1 + norm(w2)))),
                     name, "fixpoint-score-depends-on-working-set", ps, w2, g2, part, full[subg], nontrivial=True,
                     extra=dict(step=s, ws=subg.tolist()))
        except Exception as e:
            _exc(emit, cid + "/bcd", name + ".dist_fix_point_bcd", name, "fixed-point-bcd", e, ps, w, g)
    try:
        w = np.abs(rng.standard_normal(p))
        _rec(emit, base + "/value", name + ".value", R.close(float(cp.value(w)), ref.value(w), rel=1e-9), name,
             "value-differs", ps, w, [], float(cp.value(w)), ref.value(w), nontrivial=True)
    except Exception as e:
        _exc(emit, base + "/value", name + ".value", name, "value", e, ps, [], [])


def _row(emit, name, rng, base, first):
    p = int(rng.integers(2, 7))
    T = int(rng.integers(1, 4))
    alpha = float(10 ** rng.uniform(-2, 1))
    pen, ref, prm = C.make_penalty(name, rng, p, alpha)
    cp = C.compiled(pen)
    ps = _ps(prm)
    gam = prm.get("gamma", 1.0)
    radii = {"L2_1": [0.0], "L2_05": [0.0], "BlockMCPenalty": [0.0, alpha * gam],
             "BlockSCAD": [0.0, alpha, alpha * gam]}[name]
    for k in range(10):
        cid = "%s/e%d" % (base, k)
        W = rng.standard_normal((p, T)) * float(rng.choice([0.1, 1.0, 10.0]))
        for j in range(p):
            if rng.random() < 0.5:
                r = float(rng.choice(radii))
                nr = norm(W[j])
                W[j] = 0.0 if r == 0 else W[j] / nr * r
        G = rng.standard_normal((p, T)) * float(rng.choice([0.1, 1.0, 10.0])) * alpha
        if k % 4 == 0:
            G[:] = 0.0
        ws = np.arange(p) if k % 2 == 0 else rng.permutation(p)[: max(1, p // 2)]
        try:
            got = np.asarray(cp.subdiff_distance(W, np.ascontiguousarray(G[ws]), ws.astype(np.int64)), float)
        except Exception as e:
            _exc(emit, cid, name + ".subdiff_distance", name, "distance", e, ps, W, G)
            continue
        refd = ref.dist(W, G)[ws]
        sample = dict(penalty=name, params=ps, W=W.tolist(), grad=G.tolist(), ws=ws.tolist(), score=got.tolist(),
                      reference=refd.tolist()) if (first and k == 1) else None
        _rec(emit, cid, name + ".subdiff_distance", _agree(got, refd), name,
             "score-differs-from-subdifferential-distance", ps, W, G, got, refd, sample,
             nontrivial=bool(np.any(W) or np.any(G)), extra=dict(ws=ws.tolist()))
    for k in range(8):
        cid = "%s/f%d" % (base, k)
        s = float(10 ** rng.uniform(-1.5, 1))
        if name == "BlockMCPenalty":
            s = min(s, 0.9 * gam)
        if name == "BlockSCAD":
            s = min(s, 0.9 * (gam - 1))
        Xp = rng.standard_normal((p, T)) * float(rng.choice([0.3, 3.0, 30.0])) * max(alpha * s, 1e-3)
        W = np.array([ref.prox_block(Xp[j], s, j)[0] for j in range(p)])
        G = (W - Xp) / s
        allf = np.arange(p).astype(np.int64)
        try:
            got = np.asarray(cp.subdiff_distance(W, G, allf), float)
            ok = bool(np.all(got <= 1e-7 * (1 + norm(G, axis=1) + norm(Xp, axis=1) / s)))
            _rec(emit, cid, name + ".fixed_point_score", ok, name, "prox-fixed-point-has-nonzero-score", ps, W, G, got,
                 np.zeros(p), nontrivial=bool(np.any(W)), extra=dict(step=s))
            from skglm.solvers.multitask_bcd import dist_fix_point_bcd as mt_fix
            sc = np.asarray(mt_fix(W, G, np.full(p, 1.0 / s), cp, cp, allf), float)
            _rec(emit, cid + "/bcd", name + ".mt_dist_fix_point_bcd", bool(np.all(sc <= 1e-6 * (1 + norm(W, axis=1)))),
                 name, "fixpoint-score-nonzero-at-fixed-point", ps, W, G, sc, np.zeros(p), nontrivial=bool(np.any(W)),
                 extra=dict(step=s))
        except Exception as e:
            _exc(emit, cid, name + ".fixed_point_score", name, "fixed-point", e, ps, W, G)
    try:
        W = rng.standard_normal((p, T))
        _rec(emit, base + "/value", name + ".value", R.close(float(cp.value(W)), ref.value(W), rel=1e-9), name,
             "value-differs", ps, W, [], float(cp.value(W)), ref.value(W), nontrivial=True)
    except Exception as e:
        _exc(emit, base + "/value", name + ".value", name, "value", e, ps, [], [])
