"""C11 — each ready-made estimator minimises exactly its documented objective.

Monitor: after fit, (coef_, intercept_) must be first-order stationary for the objective transcribed from the
estimator's docstring into the reference model, with every constructor argument mapped as documented.  Arguments
are varied one at a time around a base configuration, so an argument that is ignored, swapped or rescaled changes
the verdict.  LinearSVC: dual feasibility + dual stationarity + coef_ == sum_i y_i dual_i x_i + primal/dual
objective agreement.  Runs decide only when the estimator reports stop_crit <= tol (or, where none is exposed,
after a generous budget).
"""
import warnings
import numpy as np
from numpy.linalg import norm

from vlib import compose as C
from vlib import refmath as R
from vlib.common import rng_for, want, small
from vlib.runner import digest

PROPERTY = "C11"
LEVEL = "exploration"
TECHNIQUE = "runtime monitoring: reference-model post-condition on estimator.fit (stationarity for the docstring objective), one-argument-at-a-time configurations"
LEVEL_TEXT = ("Each of the eleven estimators is fitted on generated data for a base configuration and for one-at-a-time "
              "variations of every documented constructor argument (alpha, l1_ratio incl. 0 and 1, C, gamma, weights incl. "
              "zeros, groups in all three formats incl. non-contiguous, positive, fit_intercept, method on data with "
              "ties); the fitted (coef_, intercept_) must satisfy the reference certificate of the documented objective.")
LEVEL_NOTE = ("trusted: vlib/refmath.py; sklearn _validate_data shim; LinearSVC(fit_intercept) is not judged (the documented "
              "objective has no intercept and none is fitted); non-convex MCPRegression judged for stationarity only")
RULE = ("cases = (estimator, configuration, data instance); non-trivial = the fit reports convergence and has at least "
        "one non-zero coefficient; distinct = digest(estimator, configuration, instance)")
SLACK = {"cert_rel": 1e-6, "cert_abs_rel_grad": 1e-10, "no_stop_crit_factor": 10.0}
ASSUMPTIONS = ["objectives transcribed from the class docstrings (see _objective in this module)"]
FLOOR = {"quick": 200, "thorough": 3000}
REPS = {"quick": 4, "thorough": 50}

ESTIMATORS = ["Lasso", "WeightedLasso", "ElasticNet", "MCPRegression", "GroupLasso", "MultiTaskLasso",
              "SparseLogisticRegression", "LinearSVC", "CoxEstimator", "GeneralizedLinearEstimator", "SqrtLasso"]


def plan(tier, seed):
    return [dict(name=e, est=e, reps=REPS[tier]) for e in ESTIMATORS]


def configs(name, rng, p, groups):
    """list of (label, kwargs) : base + one-argument variations."""
    base, var = {}, []
    if name in ("Lasso", "WeightedLasso", "ElasticNet", "MCPRegression", "GroupLasso"):
        base = dict(afrac=0.1, fit_intercept=True, positive=False)
        var = [("alpha_small", dict(afrac=0.01)), ("alpha_large", dict(afrac=0.7)), ("no_intercept", dict(fit_intercept=False)),
               ("positive", dict(positive=True)), ("fixpoint", dict(ws_strategy="fixpoint"))]
    if name == "WeightedLasso":
        base["weights"] = "rand"
        var += [("weights_with_zeros", dict(weights="zeros")), ("weights_none", dict(weights=None)),
                ("weights_spread", dict(weights="spread")), ("weights_constant", dict(weights="constant")),
                ("weights_all_zero", dict(weights="allzero"))]
    if name == "ElasticNet":
        base["l1_ratio"] = 0.5
        var += [("l1_ratio_1", dict(l1_ratio=1.0)), ("l1_ratio_small", dict(l1_ratio=0.05)), ("l1_ratio_0.9", dict(l1_ratio=0.9)),
                ("l1_ratio_0", dict(l1_ratio=0.0)),
                # (arguments also in combination: a shortcut taken for one value of l1_ratio must keep the other options)
                ("l1_ratio_1_positive", dict(l1_ratio=1.0, positive=True)), ("l1_ratio_0_positive", dict(l1_ratio=0.0, positive=True))]
    if name == "MCPRegression":
        base.update(gamma=3.0, weights=None)
        var += [("gamma_large", dict(gamma=30.0)), ("gamma_1.5", dict(gamma=1.5)), ("weights", dict(weights="rand"))]
    if name == "GroupLasso":
        base.update(groups="sizes", weights=None)
        var += [("groups_int", dict(groups="int")), ("groups_lists", dict(groups="lists")),
                ("groups_lists_perm", dict(groups="lists_perm")), ("weights", dict(weights="rand")),
                ("weights_zero", dict(weights="zeros"))]
    if name == "MultiTaskLasso":
        base = dict(afrac=0.1, fit_intercept=True)
        var = [("alpha_small", dict(afrac=0.01)), ("alpha_large", dict(afrac=0.7)), ("no_intercept", dict(fit_intercept=False)),
               ("one_task", dict(n_tasks=1)), ("fixpoint", dict(ws_strategy="fixpoint"))]
    if name == "SparseLogisticRegression":
        base = dict(afrac=0.1, fit_intercept=True)
        var = [("alpha_small", dict(afrac=0.01)), ("alpha_large", dict(afrac=0.6)), ("no_intercept", dict(fit_intercept=False)),
               ("labels_01", dict(labels="01")), ("labels_str", dict(labels="str"))]
    if name == "LinearSVC":
        base = dict(Cc=1.0)
        var = [("C_small", dict(Cc=0.05)), ("C_large", dict(Cc=20.0)), ("fixpoint", dict(ws_strategy="fixpoint")),
               ("labels_01", dict(labels="01"))]
    if name == "CoxEstimator":
        base = dict(afrac=0.1, l1_ratio=0.7, method="efron", ties=True)
        var = [("breslow_ties", dict(method="breslow")), ("efron_no_ties", dict(ties=False)),
               ("breslow_no_ties", dict(method="breslow", ties=False)), ("efron_ties_nonadjacent", dict(ties="nonadjacent")),
               ("l1_ratio_1", dict(l1_ratio=1.0)),
               ("l1_ratio_0", dict(l1_ratio=0.0)), ("l1_ratio_0.2", dict(l1_ratio=0.2)), ("alpha_small", dict(afrac=0.01))]
    if name == "GeneralizedLinearEstimator":
        base = dict(combo="Quadratic+L1")
        var = [("Logistic+L1", dict(combo="Logistic+L1")), ("Huber+WeightedL1", dict(combo="Huber+WeightedL1")),
               ("Quadratic+MCP", dict(combo="Quadratic+MCP")), ("Quadratic+L1_plus_L2", dict(combo="Quadratic+L1_plus_L2")),
               ("QuadraticSVC+Box", dict(combo="QuadraticSVC+Box")), ("Poisson+L1/ProxNewton", dict(combo="Poisson+L1")),
               ("defaults", dict(combo="defaults"))]
    if name == "SqrtLasso":
        base = dict(afrac=0.3)
        var = [("alpha_small", dict(afrac=0.1)), ("alpha_large", dict(afrac=0.8))]
    out = [("base", dict(base))]
    for lab, kw in var:
        c = dict(base)
        c.update(kw)
        out.append((lab, c))
    return out


def run_shard(spec, emit):
    name, seed = spec["est"], spec["seed"]
    for rep in range(spec["reps"]):
        rng = rng_for("C11", seed, name, rep)
        n, p = int(rng.integers(15, 45)), int(rng.integers(4, 16))
        if name == "GroupLasso":
            p = int(rng.choice([4, 6, 8, 9, 12]))
        X = C.make_X(rng, n, p, str(rng.choice(["gauss", "ar", "shifted", "scaled"])), rho=0.8)
        if name in ("SparseLogisticRegression", "LinearSVC", "CoxEstimator", "SqrtLasso"):
            X = C.make_X(rng, n, p, str(rng.choice(["gauss", "ar", "shifted"])), rho=0.8)
        groups = C.make_groups(rng, p)
        sparse_in = bool(rng.integers(0, 2))
        tol = float(rng.choice([1e-4, 1e-6]))   # (drift of accepted extrapolations, see C01's finding, is < 1e-8)
        for lab, cfg in configs(name, rng, p, groups):
            cid = "%s/%s/r%d" % (name, lab, rep)
            if not want(spec, cid):
                continue
            crng = rng_for("C11", seed, name, rep, lab)
            try:
                one(emit, cid, name, lab, cfg, crng, X, groups, sparse_in, tol, rep == 0)
            except Exception:
                import traceback
                emit(dict(id=cid, cell="%s|%s" % (name, lab), status="inconclusive",
                          obs=dict(tb=traceback.format_exc()[-1800:])))


def _weights(kind, rng, m):
    if kind is None:
        return None
    w = rng.uniform(0.3, 2.5, size=m)
    if kind == "zeros" and m > 1:
        w[rng.choice(m, max(1, m // 4), replace=False)] = 0.0
    if kind == "spread":
        w = 10 ** rng.uniform(-1.5, 1.5, size=m)
    if kind == "constant":
        w = np.full(m, float(rng.choice([0.25, 3.0])))      # all equal but not one: alpha is effectively rescaled
    if kind == "allzero":
        w = np.zeros(m)                                       # nothing penalised: least squares
    return w


def one(emit, cid, name, lab, cfg, rng, X, groups, sparse_in, tol, sample):
    import skglm.estimators as E
    from skglm.experimental.sqrt_lasso import SqrtLasso
    n, p = X.shape
    Xin = C.to_storage(X, "csc") if (sparse_in and name not in ("SqrtLasso", "MultiTaskLasso")) else X
    icpt = bool(cfg.get("fit_intercept", False))
    kw_solver = dict(tol=tol)
    if "ws_strategy" in cfg:
        kw_solver["ws_strategy"] = cfg["ws_strategy"]
    claimed_key = "stop_crit_"
    coef_of = lambda est: (np.r_[np.ravel(est.coef_), est.intercept_] if icpt else np.ravel(est.coef_))  # noqa
    extra_viol = []
    # ------------------------------------------------------------------------------------------------------
    if name in ("Lasso", "WeightedLasso", "ElasticNet", "MCPRegression", "GroupLasso"):
        y = C.make_target(rng, X, "real")
        refdf = R.RefDatafit("quadratic")
        g0 = X.T @ (y - (y.mean() if icpt else 0)) / n
        pos = cfg["positive"]
        if name == "GroupLasso":
            if cfg["groups"] == "int":
                gs = [d for d in (3, 2, 4) if p % d == 0][0] if any(p % d == 0 for d in (3, 2, 4)) else 1
                garg = gs
                glist = [np.arange(i, i + gs) for i in range(0, p, gs)]
            elif cfg["groups"] == "sizes":
                garg = [int(len(g)) for g in groups]
                k, glist = 0, []
                for s in garg:
                    glist.append(np.arange(k, k + s))
                    k += s
            else:
                perm = rng.permutation(p) if cfg["groups"] == "lists_perm" else np.arange(p)
                k, glist = 0, []
                for g in groups:
                    glist.append(perm[k:k + len(g)])
                    k += len(g)
                garg = [[int(i) for i in g] for g in glist]
            wts = _weights(cfg["weights"], rng, len(glist))
            wref = np.ones(len(glist)) if wts is None else wts
            amax = max(norm((np.maximum(g0[g], 0) if pos else g0[g])) / wref[i] for i, g in enumerate(glist) if wref[i] > 0)
            alpha = cfg["afrac"] * max(amax, 1e-8)
            est = E.GroupLasso(groups=garg, alpha=alpha, weights=None if wts is None else wts.copy(), positive=pos,
                               fit_intercept=icpt, max_iter=300, max_epochs=5000, **kw_solver)
            refpen = R.RefPenalty("group", alpha=alpha, weights=wref, groups=glist, positive=pos)
        else:
            wts = _weights(cfg.get("weights"), rng, p)
            wref = np.ones(p) if wts is None else wts
            nz = wref > 0
            amax = float(np.max((np.maximum(g0[nz], 0) if pos else np.abs(g0[nz])) / wref[nz])) if nz.any() else 1.0
            alpha = cfg["afrac"] * max(amax, 1e-8)
            common = dict(alpha=alpha, positive=pos, fit_intercept=icpt, max_iter=100, max_epochs=5000, **kw_solver)
            if name == "Lasso":
                est, refpen = E.Lasso(**common), R.RefPenalty("l1", alpha=alpha, positive=pos)
            elif name == "WeightedLasso":
                est = E.WeightedLasso(weights=None if wts is None else wts.copy(), **common)
                refpen = R.RefPenalty("wl1", alpha=alpha, weights=wref, positive=pos)
            elif name == "ElasticNet":
                r = cfg["l1_ratio"]
                if r < 1:
                    alpha = alpha / max(r, 0.05)
                    common["alpha"] = alpha
                est = E.ElasticNet(l1_ratio=r, **common)
                refpen = R.RefPenalty("enet", alpha=alpha, l1_ratio=r, positive=pos)
            else:
                est = E.MCPRegression(gamma=cfg["gamma"], weights=None if wts is None else wts.copy(), **common)
                refpen = R.RefPenalty("wmcp", alpha=alpha, gamma=cfg["gamma"], weights=wref, positive=pos)
        prob = R.RefProblem(X, y, refdf, refpen, icpt)
    elif name == "MultiTaskLasso":
        T = int(cfg.get("n_tasks", rng.integers(2, 4)))
        y = C.make_target(rng, X, "multi", n_tasks=T)
        g0 = X.T @ (y - (y.mean(axis=0) if icpt else 0)) / n
        alpha = cfg["afrac"] * float(np.max(norm(g0, axis=1)))
        est = E.MultiTaskLasso(alpha=alpha, fit_intercept=icpt, max_iter=200, max_epochs=5000, **kw_solver)
        prob = R.RefProblem(X, y, R.RefDatafit("multitask"), R.RefPenalty("l21", alpha=alpha), icpt)
        coef_of = lambda est: (np.vstack([est.coef_.T, np.atleast_1d(est.intercept_)[None, :]]) if icpt else est.coef_.T)  # noqa
        claimed_key = "stopping_crit"
    elif name == "SparseLogisticRegression":
        ypm = C.make_target(rng, X, "pm1")
        lab_kind = cfg.get("labels", "pm1")
        y = ypm if lab_kind == "pm1" else ((ypm + 1) / 2).astype(int) if lab_kind == "01" else np.where(ypm > 0, "yes", "no")
        # classes_ are sorted: the +1 class is the larger label
        classes = np.unique(y)
        ypm = np.where(y == classes[1], 1.0, -1.0)
        b0 = C.null_intercept(R.RefDatafit("logistic"), X, ypm) if icpt else 0.0
        g0 = R.RefDatafit("logistic").grad_w(X, ypm, np.zeros(p), b0)
        alpha = cfg["afrac"] * float(np.max(np.abs(g0)))
        est = E.SparseLogisticRegression(alpha=alpha, fit_intercept=icpt, max_iter=100, max_epochs=500, **kw_solver)
        prob = R.RefProblem(X, ypm, R.RefDatafit("logistic"), R.RefPenalty("l1", alpha=alpha), icpt)
        coef_of = lambda est: (np.r_[np.ravel(est.coef_), np.ravel(est.intercept_)] if icpt else np.ravel(est.coef_))  # noqa
    elif name == "LinearSVC":
        ypm = C.make_target(rng, X, "pm1")
        y = ypm if cfg.get("labels", "pm1") == "pm1" else ((ypm + 1) / 2).astype(int)
        Cc = cfg["Cc"]
        est = E.LinearSVC(C=Cc, max_iter=200, max_epochs=5000, **kw_solver)
        A = (X * ypm[:, None]).T
        prob = R.RefProblem(A, ypm, R.RefDatafit("svc"), R.RefPenalty("box", alpha=Cc), False)
        coef_of = lambda est: np.ravel(est.dual_coef_)  # noqa
    elif name == "CoxEstimator":
        y = C.make_target(rng, X, "surv", ties=cfg["ties"])
        ef = cfg["method"] == "efron"
        refdf = R.RefDatafit("cox", efron=ef)
        g0 = refdf.grad_w(X, y, np.zeros(p))
        r = cfg["l1_ratio"]
        alpha = cfg["afrac"] * float(np.max(np.abs(g0))) / max(r, 0.2)
        est = E.CoxEstimator(alpha=alpha, l1_ratio=r, method=cfg["method"], tol=tol, max_iter=200)
        refpen = R.RefPenalty("l1", alpha=alpha) if r == 1.0 else (
            R.RefPenalty("l2", alpha=alpha) if r == 0.0 else R.RefPenalty("enet", alpha=alpha, l1_ratio=r))
        prob = R.RefProblem(X, y, refdf, refpen, False)
        Xin = X if not sparse_in else C.to_storage(X, "csc")
    elif name == "GeneralizedLinearEstimator":
        import skglm.datafits as D
        import skglm.penalties as P
        from skglm.solvers import AndersonCD, ProxNewton
        combo = cfg["combo"]
        icpt = bool(rng.integers(0, 2)) and combo not in ("QuadraticSVC+Box",)
        solver = AndersonCD(tol=tol, fit_intercept=icpt, max_iter=100, max_epochs=5000)
        if combo in ("Quadratic+L1", "Quadratic+MCP", "Quadratic+L1_plus_L2", "Huber+WeightedL1", "defaults"):
            y = C.make_target(rng, X, "real")
            g0 = X.T @ (y - (y.mean() if icpt else 0)) / n
            alpha = 0.1 * float(np.max(np.abs(g0)))
            if combo == "Quadratic+L1":
                est = E.GeneralizedLinearEstimator(D.Quadratic(), P.L1(alpha), solver)
                prob = R.RefProblem(X, y, R.RefDatafit("quadratic"), R.RefPenalty("l1", alpha=alpha), icpt)
            elif combo == "Quadratic+MCP":
                est = E.GeneralizedLinearEstimator(D.Quadratic(), P.MCPenalty(alpha, 3.0), solver)
                prob = R.RefProblem(X, y, R.RefDatafit("quadratic"), R.RefPenalty("mcp", alpha=alpha, gamma=3.0), icpt)
            elif combo == "Quadratic+L1_plus_L2":
                est = E.GeneralizedLinearEstimator(D.Quadratic(), P.L1_plus_L2(alpha, 0.4), solver)
                prob = R.RefProblem(X, y, R.RefDatafit("quadratic"), R.RefPenalty("enet", alpha=alpha, l1_ratio=0.4), icpt)
            elif combo == "Huber+WeightedL1":
                wts = rng.uniform(0.3, 2, size=p)
                delta = float(np.std(y)) * 0.7 + 0.1
                est = E.GeneralizedLinearEstimator(D.Huber(delta), P.WeightedL1(alpha, wts.copy()), solver)
                prob = R.RefProblem(X, y, R.RefDatafit("huber", delta=delta), R.RefPenalty("wl1", alpha=alpha, weights=wts),
                                    icpt)
            else:
                # documented defaults: Quadratic datafit, L1(1.) penalty, AndersonCD solver (fit_intercept=True)
                y = y * (5.0 / max(np.max(np.abs(g0)), 1e-8))
                est = E.GeneralizedLinearEstimator()
                icpt = True
                prob = R.RefProblem(X, y, R.RefDatafit("quadratic"), R.RefPenalty("l1", alpha=1.0), True)
                tol = 1e-4
        elif combo == "Logistic+L1":
            y = C.make_target(rng, X, "pm1")
            b0 = C.null_intercept(R.RefDatafit("logistic"), X, y) if icpt else 0.0
            alpha = 0.1 * float(np.max(np.abs(R.RefDatafit("logistic").grad_w(X, y, np.zeros(p), b0))))
            est = E.GeneralizedLinearEstimator(D.Logistic(), P.L1(alpha), solver)
            prob = R.RefProblem(X, y, R.RefDatafit("logistic"), R.RefPenalty("l1", alpha=alpha), icpt)
        elif combo == "Poisson+L1":
            y = C.make_target(rng, X, "count")
            b0 = C.null_intercept(R.RefDatafit("poisson"), X, y) if icpt else 0.0
            alpha = 0.1 * float(np.max(np.abs(R.RefDatafit("poisson").grad_w(X, y, np.zeros(p), b0)))) + 1e-3
            est = E.GeneralizedLinearEstimator(D.Poisson(), P.L1(alpha), ProxNewton(tol=tol, fit_intercept=icpt, max_iter=100))
            prob = R.RefProblem(X, y, R.RefDatafit("poisson"), R.RefPenalty("l1", alpha=alpha), icpt)
        else:
            y = C.make_target(rng, X, "pm1")
            Cc = 1.0
            est = E.GeneralizedLinearEstimator(D.QuadraticSVC(), P.IndicatorBox(Cc),
                                               AndersonCD(tol=tol, fit_intercept=False, max_iter=200, max_epochs=5000))
            prob = R.RefProblem((X * y[:, None]).T, y, R.RefDatafit("svc"), R.RefPenalty("box", alpha=Cc), False)
            coef_of = lambda est: np.ravel(est.dual_coef_)  # noqa
        if combo != "QuadraticSVC+Box":
            coef_of = lambda est: (np.r_[np.ravel(est.coef_), np.ravel(est.intercept_)] if icpt else np.ravel(est.coef_))  # noqa
    else:  # SqrtLasso
        y = C.make_target(rng, X, "real", noise=1.0)
        amax = float(np.max(np.abs(X.T @ y)) / norm(y))
        alpha = cfg["afrac"] * amax
        est = SqrtLasso(alpha=alpha, tol=tol, max_iter=200)
        prob = R.RefProblem(X, y, R.RefDatafit("sqrtquad"), R.RefPenalty("l1", alpha=alpha), False)
        claimed_key = None
        icpt = False
    # ------------------------------------------------------------------------------------------------------
    cell = "%s|%s" % (name, lab)
    base = dict(id=cid, cell=cell, digest=digest(cid, cfg, small(X, 4)))
    try:
        with warnings.catch_warnings():
            warnings.simplefilter("ignore")
            est.fit(Xin, y)
    except Exception as e:
        emit(dict(base, status="violated", nontrivial=True,
                  viol=dict(mechanism="fit-raises", estimator=name, config=lab, exc=type(e).__name__,
                            storage="csc" if Xin is not X else "dense", detail=repr(e)[:300]),
                  obs=dict(config={k: str(v) for k, v in cfg.items()})))
        return
    coef = np.asarray(coef_of(est), float)
    stop = getattr(est, claimed_key, None) if claimed_key else None
    if not np.all(np.isfinite(coef)):
        emit(dict(base, status="violated", nontrivial=True,
                  viol=dict(mechanism="non-finite-coefficients", estimator=name, config=lab, detail=str(small(coef, 6)))))
        return
    if name == "SqrtLasso" and norm(y - X @ coef) < 1e-2 * norm(y):
        emit(dict(base, status="skipped", nontrivial=False, hist={"skipped": "small residual regime"}))
        return
    if cfg.get("ws_strategy") == "fixpoint":
        # the estimator's stopping value is then the prox-gradient fixed-point residual
        L = prob.group_lipschitz() if name == "GroupLasso" else prob.lipschitz()
        cert, per, ib = prob.cert_fixpoint(coef, L)
    else:
        cert, per, ib = prob.cert_subdiff(coef)
    slack = SLACK["cert_abs_rel_grad"] * (1 + float(np.max(np.abs(prob.gradient(coef))))) + prob.dot_error_bound(coef)
    if stop is not None:
        claimed = stop <= tol
        bound = tol * (1 + SLACK["cert_rel"]) + slack
    else:
        claimed = True
        bound = SLACK["no_stop_crit_factor"] * tol + slack
    viols = []
    if claimed and not R.leq(cert, bound, rel=0.0):
        comp = "intercept" if ib >= (float(np.max(per)) if len(per) else 0) else "coefficients"
        viols.append(dict(mechanism="not-stationary-for-documented-objective", estimator=name, config=lab,
                          component=comp, tol=tol, cert=cert, ratio=cert / tol, storage="csc" if Xin is not X else "dense",
                          detail="%s[%s]: stop=%s <= tol=%g but violation of the documented objective=%.3g (%s)" % (
                              name, lab, stop, tol, cert, comp)))
    if name == "LinearSVC" or (name == "GeneralizedLinearEstimator" and cfg.get("combo") == "QuadraticSVC+Box"):
        # primal image and primal/dual agreement
        ypm_ = prob.y
        beta = (ypm_ * coef) @ X
        if not np.allclose(np.ravel(est.coef_), beta, rtol=1e-9, atol=1e-10 * (1 + np.max(np.abs(beta)))):
            viols.append(dict(mechanism="coef-is-not-the-primal-image-of-the-dual", estimator=name, config=lab,
                              detail="max |coef_ - sum y_i a_i x_i| = %.3g" % np.max(np.abs(np.ravel(est.coef_) - beta))))
        if claimed:
            Cc = prob.pen.p["alpha"]
            primal = Cc * np.sum(np.maximum(0, 1 - ypm_ * (X @ beta))) + 0.5 * beta @ beta
            dual = -(0.5 * beta @ beta - coef.sum())
            gap = primal - dual
            if not R.leq(gap, 10 * tol * (1 + np.abs(coef).sum() + n * Cc), rel=0.0):
                viols.append(dict(mechanism="primal-dual-gap-of-the-documented-svc-objective", estimator=name, config=lab,
                                  gap=float(gap), detail="primal %.6g dual %.6g" % (primal, dual)))
    rec = dict(base, nontrivial=bool(claimed and np.any(coef != 0)), count=dict(fits=1, converged=int(bool(claimed))),
               hist={"claimed": str(bool(claimed))})
    if viols:
        rec.update(status="violated", viol=viols[0], viols=viols,
                   obs=dict(config={k: str(v) for k, v in cfg.items()}, stop=stop, tol=tol, cert=cert, coef=small(coef, 16),
                            n=n, p=p, storage="csc" if Xin is not X else "dense"))
    else:
        rec["status"] = "held"
    if sample:
        rec["sample"] = dict(estimator=name, config=lab, kwargs={k: str(v) for k, v in cfg.items()}, stop_crit=stop, tol=tol,
                             reference_violation=cert)
    emit(rec)
