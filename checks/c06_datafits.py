"""C06 — datafits are faithful: documented loss, exact derivatives, dense = sparse.

Monitor: every compiled datafit accessor is called on generated (X, y, w) and compared with the reference
model (vlib.refmath) — value vs documented formula, every gradient accessor vs X^T grad_ref, sparse twins vs
dense and vs reference, intercept step vs sign/zero pattern of df/db, prox / prox_conjugate of the
primal-dual datafits vs brute-force prox and the Moreau identity.
"""
import numpy as np
from numpy.linalg import norm
import scipy.sparse as sp

from vlib import refmath as R
from vlib import compose as C
from vlib.common import rng_for, want, small, fmt_exc, sprinkle_empty_columns
from vlib.runner import digest

PROPERTY = "C06"
LEVEL = "exploration"
TECHNIQUE = "runtime monitoring: reference-model oracle over every compiled datafit accessor on generated inputs"
LEVEL_TEXT = ("Every accessor of every compiled datafit is executed on thousands of generated (X, y, w) including "
              "threshold/overflow/tie/censoring/empty-column cases and compared with an independent numpy model of "
              "the documented loss and its derivatives; held = no disagreement beyond 1e-9 relative + forward error "
              "bound on the cases listed in the evidence. Half of the instances were initialised on other data of the "
              "same shape before (a second initialisation must replace all stored state).")
LEVEL_NOTE = ("trusted: vlib/refmath.py (self-tested against finite differences), numpy/scipy; covers only generated "
              "points; float64 only")
RULE = ("cases = (datafit, data instance, evaluation point w, accessor); data classes: gaussian / scaled / shifted "
        "designs, CSC with empty columns and unsorted indices, large |Xw| (up to 30), Huber residuals exactly at "
        "+-delta, Poisson y=0, Cox with ties x censoring x {Breslow, Efron}; non-trivial = reference value finite "
        "and w != 0; distinct = digest of (datafit, accessor, instance, point)")
SLACK = {"rel": 1e-9, "dot_forward_error": "8*(n+p)*eps*|X|^T|r|"}
ASSUMPTIONS = ["reference losses/gradients in vlib/refmath.py (self-tested against finite differences in setup)",
               "numba-compiled datafits obtained through skglm.utils.jit_compilation.compiled_clone"]
FLOOR = {"quick": 3000, "thorough": 30000}
N_INST = {"quick": 14, "thorough": 150}
N_PTS = 4

DATAFITS = ["Quadratic", "WeightedQuadratic", "Logistic", "QuadraticSVC", "Huber", "Poisson", "Gamma", "Cox",
            "QuadraticGroup", "LogisticGroup", "QuadraticMultiTask", "SqrtQuadratic", "Pinball"]


def plan(tier, seed):
    shards = []
    reps = 1 if tier == "quick" else 2
    for name in DATAFITS:
        for r in range(reps):
            shards.append(dict(name=name, rep=r, n_inst=N_INST[tier] // (1 if tier == "quick" else 2)))
    return shards


def _cmp(emit, cid, cell, got, ref, bound, sample, extra=None, nontrivial=True):
    """Emit one comparison record. bound: array/scalar absolute slack."""
    d = R.maxdiff(got, ref)
    ok = np.all(np.abs(np.asarray(got, float) - np.asarray(ref, float))[np.isfinite(np.asarray(ref, float))]
                <= np.broadcast_to(bound, np.shape(ref))[np.isfinite(np.asarray(ref, float))]) if d != np.inf else False
    rec = dict(id=cid, cell=cell, nontrivial=bool(nontrivial), digest=digest(cid))
    if ok:
        rec["status"] = "held"
    else:
        rec["status"] = "violated"
        rec["viol"] = dict(mechanism="accessor-differs-from-reference", datafit=cell.split(".")[0],
                           accessor=cell.split(".")[1], maxdiff=d, storage=(extra or {}).get("storage"),
                           detail="got %s ref %s" % (small(got, 4), small(ref, 4)))
        rec["obs"] = dict(got=small(got), ref=small(ref), bound=small(bound), **(extra or {}))
    if sample is not None:
        rec["sample"] = sample
    emit(rec)


def _err(emit, cid, cell, e, extra=None):
    emit(dict(id=cid, cell=cell, status="violated", nontrivial=True, digest=digest(cid),
              viol=dict(mechanism="accessor-raises", datafit=cell.split(".")[0], accessor=cell.split(".")[1],
                        exc=type(e).__name__, storage=(extra or {}).get("storage"), detail=fmt_exc(e)),
              obs=dict(exc=fmt_exc(e), **(extra or {}))))


def run_shard(spec, emit):
    name = spec["name"]
    seed = spec["seed"]
    for inst in range(spec["n_inst"]):
        rng = rng_for("C06", seed, name, spec["rep"], inst)
        try:
            _instance(spec, emit, name, rng, "%s/r%d/i%d" % (name, spec["rep"], inst), first=(inst == 0))
        except Exception as e:  # harness error: surface as inconclusive, never as held
            import traceback
            emit(dict(id="%s/r%d/i%d" % (name, spec["rep"], inst), cell=name + ".harness", status="inconclusive",
                      obs=dict(tb=traceback.format_exc()[-1500:])))


def _instance(spec, emit, name, rng, base, first):
    n = int(rng.integers(5, 30))
    p = int(rng.integers(1, 12))
    xkind = str(rng.choice(["gauss", "scaled", "shifted", "ar"]))
    X = C.make_X(rng, n, p, xkind, rho=0.9, density=float(rng.choice([1.0, 0.5])))
    if rng.random() < 0.4:
        X = sprinkle_empty_columns(rng, X)
    groups = C.make_groups(rng, p, style=str(rng.choice(["contig", "perm"])))
    n_tasks = int(rng.integers(1, 4))
    y = C.make_target(rng, X, C.TARGET_KIND[name], n_tasks=n_tasks, ties=[False, True, "nonadjacent"][int(rng.integers(0, 3))])
    opts = {}
    if name == "WeightedQuadratic":
        sw = rng.uniform(0.1, 3.0, size=n)
        if rng.random() < 0.4:
            sw = rng.integers(0, 4, size=n).astype(float)
            if sw.sum() == 0:
                sw[0] = 1.0
        opts["sw"] = sw
    if name == "Poisson" and rng.random() < 0.5:
        y[rng.choice(n, max(1, n // 3), replace=False)] = 0.0
    df, ref, prm = C.make_datafit(name, rng, n, groups=groups, **opts)
    cdf = C.compiled(df)
    Xs = C.to_storage(X, str(rng.choice(["csc", "csc_unsorted"])))
    storage_kind = "csc_unsorted" if not Xs.has_sorted_indices else "csc"
    data, indptr, indices = Xs.data, Xs.indptr, Xs.indices
    has = lambda m: hasattr(cdf, m)  # noqa
    eps = np.finfo(float).eps

    # two compiled instances: one initialised densely, one sparsely (initialisation state must not leak)
    cdf_d, cdf_s = C.compiled(df), C.compiled(df)
    # history: in half of the instances both objects were initialised before on other data of the same shape (a second
    # initialisation must replace everything the first one stored)
    if rng.random() < 0.5:
        try:
            X2 = C.make_X(rng, n, p, "gauss", density=0.7)
            y2 = C.make_target(rng, X2, C.TARGET_KIND[name], n_tasks=n_tasks, ties=True)
            X2s = C.to_storage(X2, "csc")
            if has("initialize"):
                cdf_d.initialize(X2, y2)
            if has("initialize_sparse"):
                cdf_s.initialize_sparse(X2s.data, X2s.indptr, X2s.indices, y2)
        except Exception:
            pass        # whatever goes wrong on the other data is judged when it is the data under test
    try:
        if has("initialize"):
            cdf_d.initialize(X, y)
    except Exception as e:
        _err(emit, base + "/init", name + ".initialize", e, dict(storage="dense"))
        return
    sparse_ok = True
    try:
        if has("initialize_sparse"):
            cdf_s.initialize_sparse(data, indptr, indices, y)
    except Exception as e:
        sparse_ok = False
        _err(emit, base + "/init_sparse", name + ".initialize_sparse", e, dict(storage=storage_kind))

    for k in range(N_PTS):
        cid0 = "%s/p%d" % (base, k)
        if name == "QuadraticMultiTask":
            w = rng.standard_normal((p, n_tasks)) * (k > 0)
            b = rng.standard_normal(n_tasks) * (k % 2)
        else:
            w = rng.standard_normal(p) * (k > 0)
            b = float(rng.standard_normal()) * (k % 2)
        # scale the linear predictor: moderate, or large (overflow region of naive exp/log1p)
        z = X @ w + b
        zmax = float(np.max(np.abs(z))) if z.size else 0.0
        target = float(rng.choice([1.0, 3.0, 30.0])) if name in ("Logistic", "LogisticGroup") else \
            float(rng.choice([0.5, 2.0, 6.0])) if name in ("Poisson", "Gamma", "Cox") else None
        if target is not None and zmax > 0:
            w = w * (target / zmax)
            b = b * (target / zmax)
        z = X @ w + b
        if name == "Huber" and k == 2 and p >= 1:
            # put some residuals exactly on +-delta: choose y from z
            idx = rng.choice(n, max(1, n // 3), replace=False)
            y = y.copy()
            y[idx] = z[idx] + prm["delta"] * rng.choice([-1.0, 1.0], size=len(idx))
            if has("initialize"):
                cdf_d.initialize(X, y)
            if has("initialize_sparse") and sparse_ok:
                cdf_s.initialize_sparse(data, indptr, indices, y)
        small_res = False
        if name == "SqrtQuadratic" and k == 3:
            # a nearly exact fit: residual 1e-3 |y|.  The datafit documents that its gradient refuses this regime
            # (SmallResidualException); what it may not do is return a number that is not the gradient
            y = z + 1e-3 * norm(z) * (lambda u: u / norm(u))(rng.standard_normal(n)) if norm(z) > 0 else y
            small_res = bool(norm(z - y) < 1e-2 * norm(y))
        nontriv = bool(np.any(w != 0))
        sample = None
        if first and k == 1:
            sample = dict(datafit=name, n=n, p=p, design=xkind, storage=storage_kind, params=prm,
                          w=small(w), b=small(b), y=small(y))
        Xw = np.ascontiguousarray(z)
        rg_ref = None
        if ref.kind != "pinball":
            try:
                rg_ref = ref.rawgrad(y, z)
            except Exception:
                rg_ref = None
        # ------------------------------------------------------------------ value
        v_ref = ref.value(y, z, w)
        try:
            v = cdf_d.value(y, w, Xw)
            _cmp(emit, cid0 + "/value", name + ".value", v, v_ref, 1e-9 * (1 + abs(v_ref)), sample,
                 dict(zmax=float(np.max(np.abs(z))), params=prm), nontrivial=nontriv)
        except Exception as e:
            _err(emit, cid0 + "/value", name + ".value", e)
        if rg_ref is None:
            _prox_checks(emit, cid0, name, cdf_d, ref, rng, y, nontriv)
            continue
        absX = np.abs(X)
        if ref.kind == "multitask":
            g_ref = X.T @ rg_ref
            gb = 8 * (n + p) * eps * (absX.T @ np.abs(rg_ref)) + 1e-9 * (1 + np.abs(g_ref))
        else:
            g_ref = ref.grad_w(X, y, w, b)
            extra_b = 1.0 if ref.kind == "svc" else 0.0
            gb = 8 * (n + p) * eps * (absX.T @ np.abs(rg_ref) + extra_b) + 1e-9 * (1 + np.abs(g_ref))
            # Quadratic-type accessors use X_j^T Xw - X_j^T y: forward error scales with both terms
            if name in ("Quadratic", "WeightedQuadratic", "QuadraticMultiTask"):
                scale = np.abs(ref.rawgrad(np.zeros_like(y), z)) + np.abs(ref.rawgrad(y, np.zeros_like(z)))
                gb = gb + 8 * (n + p) * eps * (absX.T @ scale)
        if name == "QuadraticMultiTask":
            scale = (np.abs(z) + np.abs(y)) / n
            gb = gb + 8 * (n + p) * eps * (absX.T @ scale)
        ex_d = dict(storage="dense", params=prm)
        ex_s = dict(storage=storage_kind, params=prm)
        # ------------------------------------------------------------------ raw_grad
        if has("raw_grad"):
            try:
                _cmp(emit, cid0 + "/raw_grad", name + ".raw_grad", cdf_d.raw_grad(y, Xw), rg_ref,
                     1e-9 * (1 + np.abs(rg_ref)), None, ex_d, nontriv)
            except Exception as e:
                if small_res and "SmallResidual" in repr(e):
                    emit(dict(id=cid0 + "/raw_grad", cell=name + ".raw_grad", status="held", nontrivial=True,
                              digest=digest(cid0, "small-residual"), hist={"documented_refusal": "SmallResidualException"}))
                    continue
                _err(emit, cid0 + "/raw_grad", name + ".raw_grad", e)
        # ------------------------------------------------------------------ full gradients
        if has("gradient") and name != "QuadraticMultiTask":
            try:
                _cmp(emit, cid0 + "/gradient", name + ".gradient", cdf_d.gradient(X, y, Xw), g_ref, gb, None, ex_d,
                     nontriv)
            except Exception as e:
                _err(emit, cid0 + "/gradient", name + ".gradient", e)
        if has("gradient_sparse") and sparse_ok:
            try:
                _cmp(emit, cid0 + "/gradient_sparse", name + ".gradient_sparse",
                     cdf_s.gradient_sparse(data, indptr, indices, y, Xw), g_ref, gb, None, ex_s, nontriv)
            except Exception as e:
                _err(emit, cid0 + "/gradient_sparse", name + ".gradient_sparse", e, ex_s)
        if has("full_grad_sparse") and sparse_ok:
            try:
                _cmp(emit, cid0 + "/full_grad_sparse", name + ".full_grad_sparse",
                     cdf_s.full_grad_sparse(data, indptr, indices, y, Xw), g_ref, gb, None, ex_s, nontriv)
            except Exception as e:
                _err(emit, cid0 + "/full_grad_sparse", name + ".full_grad_sparse", e, ex_s)
        # ------------------------------------------------------------------ per-coordinate
        if has("gradient_scalar"):
            try:
                got = np.array([cdf_d.gradient_scalar(X, y, w, Xw, j) for j in range(p)])
                _cmp(emit, cid0 + "/gradient_scalar", name + ".gradient_scalar", got, g_ref, gb, None, ex_d, nontriv)
            except Exception as e:
                _err(emit, cid0 + "/gradient_scalar", name + ".gradient_scalar", e)
        if has("gradient_scalar_sparse") and sparse_ok:
            try:
                if name == "QuadraticGroup":
                    got = np.array([cdf_s.gradient_scalar_sparse(data, indptr, indices, y, w, Xw, j)
                                    for j in range(p)])
                else:
                    got = np.array([cdf_s.gradient_scalar_sparse(data, indptr, indices, y, Xw, j)
                                    for j in range(p)])
                _cmp(emit, cid0 + "/gradient_scalar_sparse", name + ".gradient_scalar_sparse", got, g_ref, gb, None,
                     ex_s, nontriv)
            except Exception as e:
                _err(emit, cid0 + "/gradient_scalar_sparse", name + ".gradient_scalar_sparse", e, ex_s)
        # ------------------------------------------------------------------ per-group
        if has("gradient_g"):
            try:
                got = np.zeros(p)
                for gi, G in enumerate(groups):
                    got[G] = cdf_d.gradient_g(X, y, w, Xw, gi)
                _cmp(emit, cid0 + "/gradient_g", name + ".gradient_g", got, g_ref, gb, None, ex_d, nontriv)
            except Exception as e:
                _err(emit, cid0 + "/gradient_g", name + ".gradient_g", e)
        if has("gradient_g_sparse") and sparse_ok:
            try:
                got = np.zeros(p)
                for gi, G in enumerate(groups):
                    got[G] = cdf_s.gradient_g_sparse(data, indptr, indices, y, w, Xw, gi)
                _cmp(emit, cid0 + "/gradient_g_sparse", name + ".gradient_g_sparse", got, g_ref, gb, None, ex_s,
                     nontriv)
            except Exception as e:
                _err(emit, cid0 + "/gradient_g_sparse", name + ".gradient_g_sparse", e, ex_s)
        # ------------------------------------------------------------------ per-task rows
        if has("gradient_j"):
            try:
                got = np.array([cdf_d.gradient_j(X, y, w, Xw, j) for j in range(p)])
                _cmp(emit, cid0 + "/gradient_j", name + ".gradient_j", got, g_ref, gb, None, ex_d, nontriv)
            except Exception as e:
                _err(emit, cid0 + "/gradient_j", name + ".gradient_j", e)
        if has("gradient_j_sparse") and sparse_ok:
            try:
                got = np.array([cdf_s.gradient_j_sparse(data, indptr, indices, y, Xw, j) for j in range(p)])
                _cmp(emit, cid0 + "/gradient_j_sparse", name + ".gradient_j_sparse", got, g_ref, gb, None, ex_s,
                     nontriv)
            except Exception as e:
                _err(emit, cid0 + "/gradient_j_sparse", name + ".gradient_j_sparse", e, ex_s)
        # ------------------------------------------------------------------ intercept step direction
        if has("intercept_update_step"):
            try:
                st = np.atleast_1d(np.asarray(cdf_d.intercept_update_step(y, Xw), float))
                gbref = np.atleast_1d(np.asarray(rg_ref.sum(axis=0), float))
                tol_b = 1e-9 * (1 + np.abs(rg_ref).sum(axis=0))
                bad = (~np.isfinite(st)) | ((np.abs(gbref) > 10 * tol_b) & (st * gbref <= 0)) | \
                      ((np.abs(gbref) <= tol_b) & (np.abs(st) > 1e3 * np.atleast_1d(tol_b)))
                rec = dict(id=cid0 + "/intercept_update_step", cell=name + ".intercept_update_step",
                           nontrivial=nontriv, digest=digest(cid0, "ius"))
                if bad.any():
                    rec.update(status="violated",
                               viol=dict(mechanism="intercept-step-not-a-descent-direction", datafit=name,
                                         accessor="intercept_update_step", detail="step %s dfdb %s" % (st, gbref)),
                               obs=dict(step=st, dfdb=gbref))
                else:
                    rec["status"] = "held"
                    rec["hist"] = {"intercept_step_over_dfdb": "%.3g" % float(st[0] / gbref[0])
                                   if abs(gbref[0]) > 10 * np.atleast_1d(tol_b)[0] else "0/0"}
                emit(rec)
            except Exception as e:
                _err(emit, cid0 + "/intercept_update_step", name + ".intercept_update_step", e)
        _prox_checks(emit, cid0, name, cdf_d, ref, rng, y, nontriv)


def _prox_checks(emit, cid0, name, cdf, ref, rng, y, nontriv):
    if name not in ("Pinball", "SqrtQuadratic"):
        return
    n = len(y)
    for t in range(2):
        v = y + rng.standard_normal(n) * float(rng.choice([0.1, 1.0, 5.0]))
        if t == 1:
            v[: n // 2] = y[: n // 2]  # residual exactly zero on half of the samples
        step = float(rng.choice([0.05, 0.7, 3.0]))
        obj = lambda u: 0.5 * norm(u - v) ** 2 + step * ref.value(y, u)  # noqa
        cid = "%s/prox%d" % (cid0, t)
        try:
            u = np.asarray(cdf.prox(v, step, y), float)
            fu = obj(u)
            # reference minimiser
            if name == "Pinball":
                q = ref.p["q"]
                # separable: minimise 0.5(u-v)^2 + step*rho_q(y-u) per coordinate (closed form by cases)
                r = y - v
                ustar = np.where(r > step * q, v + step * q, np.where(r < -step * (1 - q), v - step * (1 - q), y))
            else:
                r = y - v
                nr = norm(r)
                ustar = y.copy() if nr <= step else v + step * r / nr
            fstar = obj(ustar)
            # random perturbation sanity of the oracle's own minimiser
            for _ in range(20):
                cand = ustar + 1e-3 * rng.standard_normal(n)
                assert obj(cand) >= fstar - 1e-12 * (1 + abs(fstar)), "oracle prox not minimal"
            rec = dict(id=cid, cell=name + ".prox", nontrivial=True, digest=digest(cid))
            if np.all(np.isfinite(u)) and R.leq(fu, fstar, rel=1e-9):
                rec["status"] = "held"
            else:
                rec.update(status="violated", viol=dict(mechanism="prox-not-minimiser", datafit=name, accessor="prox",
                                                        detail="obj(prox)=%r min=%r" % (fu, fstar)),
                           obs=dict(step=step, got=small(u), ref=small(ustar)))
            emit(rec)
            # Moreau identity for prox_conjugate: prox_{s F*}(z) = z - s * prox_{F/s}(z/s)
            zz = rng.standard_normal(n) * float(rng.choice([0.2, 1.0, 4.0]))
            pc = np.asarray(cdf.prox_conjugate(zz, step, y), float)
            vv = zz / step
            if name == "Pinball":
                q = ref.p["q"]
                r = y - vv
                s2 = 1.0 / step
                pr = np.where(r > s2 * q, vv + s2 * q, np.where(r < -s2 * (1 - q), vv - s2 * (1 - q), y))
            else:
                r = y - vv
                nr = norm(r)
                s2 = 1.0 / step
                pr = y.copy() if nr <= s2 else vv + s2 * r / nr
            pc_ref = zz - step * pr
            _cmp(emit, cid + "/conj", name + ".prox_conjugate", pc, pc_ref, 1e-9 * (1 + np.abs(pc_ref)), None,
                 dict(step=step), True)
        except AssertionError:
            raise
        except Exception as e:
            _err(emit, cid, name + ".prox", e)
