"""C07 — proximal operators return a global minimiser of the prox objective.

Monitor: the compiled penalty's prox_1d / prox_1group / prox_1feat / prox_vec is called on generated (x, step)
— values on and one-ulp/1e-6 around every closed-form threshold, zero input, zero weights, positivity — and
judged by *objective value* against the reference global minimum (closed form for convex penalties, dense
grid + zoom brute force otherwise, isotonic regression for SLOPE): Phi(prox_repo(x)) <= min Phi + slack,
result finite, no exception.
"""
import numpy as np
from numpy.linalg import norm

from vlib import refmath as R
from vlib import compose as C
from vlib.common import rng_for, small, fmt_exc
from vlib.runner import digest

PROPERTY = "C07"
LEVEL = "exploration"
TECHNIQUE = "runtime monitoring: objective-value oracle (brute-force / closed-form global minimum) on every compiled prox"
LEVEL_TEXT = ("Each penalty's compiled proximal operator is executed on tens of thousands of generated inputs placed on "
              "and around every threshold of its closed form, with weights (zeros included), positivity and group "
              "layouts, and the returned point is accepted only if its prox objective is within 1e-9 relative of an "
              "independently computed global minimum; exceptions and non-finite results are violations.")
LEVEL_NOTE = ("trusted: vlib/refmath.py brute-force minimiser (a missed minimum only weakens the test); steps restricted "
              "to each penalty's admissible range (MCP: step*weight < gamma, SCAD: step < gamma-1); cases outside are "
              "counted as out_of_scope, never as held")
RULE = ("cases = (penalty, hyper-parameters, unit, x, step); x drawn from {0, +-threshold*(1, 1+-1e-12, 1+-1e-6), "
        "random at 3 scales}; non-trivial = x != 0 or zero-input clause; distinct = digest of (penalty, params, x, step)")
# (log-sum: the library locates the jump of its prox by a bisection stopped at a bracket of 1e-8, its documented accuracy;
#  next to the jump the objective of its answer is then within ~1e-8 |x| of the minimum, not within 1e-9)
SLACK = {"rel_objective": 1e-9, "rel_objective_logsum": 1e-7}
DEATH_IS_VIOLATION = True          # a prox that does not return is a violation of "finite for every finite input"
SHARD_TIMEOUT = {"quick": 600, "thorough": 2400}
ASSUMPTIONS = ["reference prox objective and global minimum from vlib/refmath.py",
               "admissible step range per penalty as stated in LEVEL_NOTE"]
FLOOR = {"quick": 4000, "thorough": 60000}
N_CFG = {"quick": 12, "thorough": 160}

SEP = ["L1", "L1_plus_L2", "WeightedL1", "MCPenalty", "WeightedMCPenalty", "SCAD", "IndicatorBox", "L0_5", "L2_3",
       "LogSumPenalty", "PositiveConstraint"]
GRP = ["WeightedGroupL2", "WeightedL1GroupL2"]
ROW = ["L2_1", "L2_05", "BlockMCPenalty", "BlockSCAD"]
VEC = ["SLOPE", "L0_5"]


def plan(tier, seed):
    out = []
    for name in SEP + GRP + ROW:
        out.append(dict(name=name, mode="unit", n_cfg=N_CFG[tier]))
    for name in VEC:
        out.append(dict(name=name, mode="vec", n_cfg=N_CFG[tier]))
    return out


def _thresholds(name, prm, s, wt):
    a = prm.get("alpha", 1.0)
    t = [a * s * wt]
    if name == "L1_plus_L2":
        t = [a * s * prm["l1_ratio"]]
    if name in ("MCPenalty", "WeightedMCPenalty"):
        t += [a * prm["gamma"]]
    if name == "SCAD":
        t += [2 * a * s, a * prm["gamma"], a * s]
    if name == "IndicatorBox":
        t = [a]
    if name == "L0_5":
        t = [1.5 * (a * s) ** (2.0 / 3.0)]
    if name == "L2_3":
        t = [2.0 * (2.0 / 3.0 * a * s) ** 0.75]
    if name == "LogSumPenalty":
        e = prm["eps"]
        t = [a * s / e, abs(2 * np.sqrt(a * s) - e)]
    if name == "PositiveConstraint":
        t = [0.0]
    return [v for v in t if np.isfinite(v)]


def _xs(rng, thresholds):
    xs = [0.0]
    for t in thresholds:
        for f in (1.0, 1 + 1e-12, 1 - 1e-12, 1 + 1e-6, 1 - 1e-6, 1.3, 0.7):
            xs += [t * f, -t * f]
    xs += list(rng.standard_normal(4) * 0.3) + list(rng.standard_normal(4) * 3) + list(rng.standard_normal(2) * 50)
    return xs


def _admissible(name, prm, s, wt=1.0):
    if name in ("MCPenalty", "WeightedMCPenalty", "BlockMCPenalty"):
        return s * wt < prm["gamma"] * (1 - 1e-9)
    if name in ("SCAD", "BlockSCAD"):
        return s < (prm["gamma"] - 1) * (1 - 1e-9)
    return True


def _emit_eval(emit, cid, cell, name, fu, fmin, u, x, s, prm_small, sample, nontrivial, scope=True):
    rec = dict(id=cid, cell=cell, nontrivial=bool(nontrivial), digest=digest(cell, prm_small, small(x, 64), s))
    if not scope:
        rec.update(status="skipped", hist={"out_of_scope": name})
        emit(rec)
        return
    finite = bool(np.all(np.isfinite(u)))
    if finite and R.leq(fu, fmin, rel=SLACK["rel_objective_logsum" if name == "LogSumPenalty" else "rel_objective"]):
        rec["status"] = "held"
    else:
        rec.update(status="violated",
                   viol=dict(mechanism="prox-not-global-minimiser" if finite else "prox-non-finite",
                             penalty=name, method=cell.split(".")[1], zero_input=bool(not np.any(x)),
                             gap=(None if not finite else float(fu - fmin)),
                             detail="x=%s step=%r -> %s: Phi=%r, min Phi=%r" % (small(x, 4), s, small(u, 4), fu, fmin)),
                   obs=dict(x=small(x, 16), step=s, params=prm_small, got=small(u, 16), phi_got=fu, phi_min=fmin))
    if sample is not None:
        rec["sample"] = sample
    emit(rec)


def _emit_exc(emit, cid, cell, name, e, x, s, prm_small):
    emit(dict(id=cid, cell=cell, status="violated", nontrivial=True, digest=digest(cid),
              viol=dict(mechanism="prox-raises", penalty=name, method=cell.split(".")[1], exc=type(e).__name__,
                        zero_input=bool(not np.any(x)), detail=fmt_exc(e)),
              obs=dict(x=small(x, 16), step=s, params=prm_small, exc=fmt_exc(e))))


def run_shard(spec, emit):
    name, seed = spec["name"], spec["seed"]
    for cfg in range(spec["n_cfg"]):
        rng = rng_for("C07", seed, name, spec["mode"], cfg)
        base = "%s/%s/c%d" % (name, spec["mode"], cfg)
        if spec["mode"] == "vec":
            _vec(emit, name, rng, base, cfg == 0)
        elif name in SEP:
            _sep(emit, name, rng, base, cfg == 0)
        elif name in GRP:
            _grp(emit, name, rng, base, cfg == 0)
        else:
            _row(emit, name, rng, base, cfg == 0)


def _psmall(prm):
    return {k: (small(v, 6) if isinstance(v, np.ndarray) else v) for k, v in prm.items()}


def _sep(emit, name, rng, base, first):
    p = int(rng.integers(2, 6))
    alpha = float(10 ** rng.uniform(-2, 1))
    positive = bool(rng.integers(0, 2)) if name in ("L1", "L1_plus_L2", "WeightedL1", "MCPenalty",
                                                    "WeightedMCPenalty") else False
    opts = {}
    if name in ("WeightedL1", "WeightedMCPenalty"):
        wts = rng.uniform(0.2, 3.0, size=p)
        wts[0] = 0.0 if name == "WeightedL1" or rng.random() < 0.5 else wts[0]
        opts["weights"] = wts
    if name in ("MCPenalty", "WeightedMCPenalty"):
        opts["gamma"] = float(rng.choice([1.2, 2.0, 3.0, 10.0]))
    if name == "SCAD":
        opts["gamma"] = float(rng.choice([2.1, 3.7, 10.0]))
    if name == "L1_plus_L2":
        opts["l1_ratio"] = float(rng.choice([0.0, 1e-3, 0.5, 1.0]))
    if name == "LogSumPenalty":
        # (a quarter of the cases with a tiny eps: the bracket of the prox's root finder is then ~ alpha*step/eps wide)
        opts["eps"] = float(10 ** rng.uniform(-1.5, 1)) if rng.random() < 0.75 else float(10 ** rng.uniform(-10, -3))
    pen, ref, prm = C.make_penalty(name, rng, p, alpha, positive=positive, **opts)
    cp = C.compiled(pen)
    ps = _psmall(prm)
    k = 0
    for s in [float(10 ** rng.uniform(-2, 1.5)) for _ in range(3)] + [1.0]:
        for j in range(p if "weights" in prm else 1):
            wt = float(prm["weights"][j]) if "weights" in prm else 1.0
            scope = _admissible(name, prm, s, wt)
            thr = _thresholds(name, prm, s, wt)
            if name in ("LogSumPenalty", "L0_5", "L2_3"):
                # the point where the reference prox jumps away from zero, located by bisection on x (it is not one of
                # the closed-form landmarks above when the penalty is very steep at 0, e.g. log-sum with a tiny eps)
                lo, hi = 0.0, max(1.0, 10 * max(thr + [1.0]))
                while ref.prox_1d(hi, s, j)[0] == 0.0 and hi < 1e12:
                    hi *= 10
                for _ in range(60):
                    mid = 0.5 * (lo + hi)
                    if ref.prox_1d(mid, s, j)[0] == 0.0:
                        lo = mid
                    else:
                        hi = mid
                thr = thr + [hi, 0.97 * hi, 1.03 * hi]
            for x in _xs(rng, thr):
                k += 1
                cid = "%s/e%d" % (base, k)
                x = float(x)
                try:
                    u = float(cp.prox_1d(x, s, j))
                except Exception as e:
                    _emit_exc(emit, cid, name + ".prox_1d", name, e, x, s, ps)
                    continue
                fu = float(ref.prox_obj_1d(u, x, s, j)) if np.isfinite(u) else np.nan
                _, fmin = ref.prox_1d(x, s, j)
                sample = dict(penalty=name, params=ps, x=x, step=s, j=j, prox=u, phi=fu, phi_min=fmin) \
                    if (first and k == 7) else None
                _emit_eval(emit, cid, name + ".prox_1d", name, fu, fmin, u, x, s, ps, sample, True, scope)
    if name in ("L1", "L1_plus_L2", "WeightedL1", "LogSumPenalty", "L0_5", "L2_3", "IndicatorBox", "PositiveConstraint"):
        _huge_steps(emit, name, cp, ref, prm, ps, base, rng)


def _huge_steps(emit, name, cp, ref, prm, ps, base, rng):
    """steps far beyond anything a well-scaled problem produces (a prox-Newton solver hands 1/curvature to the prox, and
    curvatures underflow on saturated losses): the prox must still return, with a finite value that is not worse than 0
    and than x itself (necessary for a global minimiser; the brute-force reference is not used at these scales)."""
    for k, (s, x) in enumerate([(1e8, 3.0), (1e16, 3.0), (1e16, -1e9), (1e20, 1e-3), (1e12, 5e7)]):
        if not _admissible(name, prm, s):
            continue
        cid = "%s/huge%d" % (base, k)
        emit(dict(id=cid, status="started", cell=name + ".prox_1d", coords=dict(penalty=name, params=ps, x=x, step=s)))
        try:
            u = float(cp.prox_1d(float(x), float(s), 0))
        except Exception as e:
            _emit_exc(emit, cid, name + ".prox_1d", name, e, x, s, ps)
            continue
        rec = dict(id=cid, cell=name + ".prox_1d", nontrivial=True, digest=digest(name, ps, x, s, "huge"))
        ok = bool(np.isfinite(u))
        if ok:
            fu = float(ref.prox_obj_1d(u, x, s, 0))
            f0, fx = float(ref.prox_obj_1d(0.0, x, s, 0)), float(ref.prox_obj_1d(x, x, s, 0))
            ok = bool(R.leq(fu, min(f0, fx), rel=1e-7))
        if ok:
            rec["status"] = "held"
        else:
            rec.update(status="violated", viol=dict(mechanism="prox-not-global-minimiser", penalty=name, method="prox_1d",
                                                    zero_input=False, huge_step=True,
                                                    detail="x=%r step=%r -> %r" % (x, s, u)),
                       obs=dict(x=x, step=s, params=ps, got=u))
        emit(rec)


def _grp(emit, name, rng, base, first):
    p = int(rng.integers(2, 9))
    groups = C.make_groups(rng, p, style=str(rng.choice(["contig", "perm"])))
    alpha = float(10 ** rng.uniform(-2, 1))
    positive = bool(rng.integers(0, 2)) if name == "WeightedGroupL2" else False
    opts = {}
    if name == "WeightedGroupL2":
        wts = rng.uniform(0.2, 3.0, size=len(groups))
        if rng.random() < 0.5:
            wts[int(rng.integers(0, len(groups)))] = 0.0
        opts["weights"] = wts
    else:
        wg = rng.uniform(0.2, 3.0, size=len(groups))
        wf = rng.uniform(0.0, 2.0, size=p)
        if rng.random() < 0.4:
            wg[int(rng.integers(0, len(groups)))] = 0.0
        opts.update(weights_groups=wg, weights_features=wf)
    pen, ref, prm = C.make_penalty(name, rng, p, alpha, groups=groups, positive=positive, **opts)
    cp = C.compiled(pen)
    ps = _psmall(prm)
    ps["groups"] = [g.tolist() for g in groups]
    k = 0
    for s in [float(10 ** rng.uniform(-2, 1.5)) for _ in range(3)]:
        for gi, G in enumerate(groups):
            lam = s * alpha * (prm["weights"][gi] if name == "WeightedGroupL2" else prm["weights_groups"][gi])
            cands = [np.zeros(len(G))]
            d = rng.standard_normal(len(G))
            d /= max(norm(d), 1e-300)
            for f in (1.0, 1 + 1e-12, 1 - 1e-12, 1.5, 0.5):
                cands.append(lam * f * d)
            cands.append(-np.abs(rng.standard_normal(len(G))))          # no positive entry
            cands += [rng.standard_normal(len(G)) * sc for sc in (0.1, 1.0, 20.0)]
            for x in cands:
                k += 1
                cid = "%s/e%d" % (base, k)
                try:
                    u = np.asarray(cp.prox_1group(np.ascontiguousarray(x, float), s, gi), float)
                except Exception as e:
                    _emit_exc(emit, cid, name + ".prox_1group", name, e, x, s, ps)
                    continue
                fu = ref.prox_block_obj(u, x, s, gi) if np.all(np.isfinite(u)) else np.nan
                _, fmin = ref.prox_block(x, s, gi)
                sample = dict(penalty=name, params=ps, x=x.tolist(), step=s, g=gi, prox=u.tolist(), phi=fu,
                              phi_min=fmin) if (first and k == 5) else None
                _emit_eval(emit, cid, name + ".prox_1group", name, fu, fmin, u, x, s, ps, sample, True)


def _row(emit, name, rng, base, first):
    alpha = float(10 ** rng.uniform(-2, 1))
    opts = {}
    if name == "BlockMCPenalty":
        opts["gamma"] = float(rng.choice([1.2, 3.0, 10.0]))
    if name == "BlockSCAD":
        opts["gamma"] = float(rng.choice([2.1, 3.7, 10.0]))
    pen, ref, prm = C.make_penalty(name, rng, 3, alpha, **opts)
    cp = C.compiled(pen)
    ps = _psmall(prm)
    k = 0
    for s in [float(10 ** rng.uniform(-2, 1.5)) for _ in range(3)] + [1.0]:
        scope = _admissible(name, prm, s)
        T = int(rng.integers(1, 5))
        thr = {"L2_1": [alpha * s], "L2_05": [1.5 * (alpha * s) ** (2.0 / 3.0)],
               "BlockMCPenalty": [alpha * s, alpha * prm.get("gamma", 1)],
               "BlockSCAD": [alpha * s, 2 * alpha * s, alpha * prm.get("gamma", 1)]}[name]
        cands = [np.zeros(T)]
        for t in thr:
            d = rng.standard_normal(T)
            d /= max(norm(d), 1e-300)
            for f in (1.0, 1 + 1e-12, 1 - 1e-12, 1 + 1e-6, 1 - 1e-6, 1.4, 0.6):
                cands.append(t * f * d)
        cands += [rng.standard_normal(T) * sc for sc in (0.1, 1.0, 30.0)]
        for x in cands:
            k += 1
            cid = "%s/e%d" % (base, k)
            try:
                u = np.asarray(cp.prox_1feat(np.ascontiguousarray(x, float), s, 0), float)
            except Exception as e:
                _emit_exc(emit, cid, name + ".prox_1feat", name, e, x, s, ps)
                continue
            fu = ref.prox_block_obj(u, x, s, 0) if np.all(np.isfinite(u)) else np.nan
            _, fmin = ref.prox_block(x, s, 0)
            sample = dict(penalty=name, params=ps, x=x.tolist(), step=s, prox=u.tolist(), phi=fu, phi_min=fmin) \
                if (first and k == 5) else None
            _emit_eval(emit, cid, name + ".prox_1feat", name, fu, fmin, u, x, s, ps, sample, True, scope)


def _vec(emit, name, rng, base, first):
    p = int(rng.integers(1, 12))
    alpha = float(10 ** rng.uniform(-2, 1))
    if name == "SLOPE":
        style = str(rng.choice(["decreasing", "constant", "ties", "steep"]))
        al = np.sort(rng.uniform(0.1, 2.0, size=p))[::-1] * alpha
        if style == "steep":
            al = np.sort(10 ** rng.uniform(-2, 0.3, size=p))[::-1] * alpha
        if style == "constant":
            al[:] = alpha
        if style == "ties" and p > 2:
            al[1] = al[0]
        pen, ref, prm = C.make_penalty(name, rng, p, alpha, alphas=al)
    else:
        pen, ref, prm = C.make_penalty(name, rng, p, alpha)
    cp = C.compiled(pen)
    ps = _psmall(prm)
    for k in range(8):
        s = float(10 ** rng.uniform(-2, 1.5))
        x = rng.standard_normal(p) * float(rng.choice([0.1, 1.0, 10.0]))
        if k == 0:
            x[:] = 0.0
        if k == 1 and p > 1:
            x[1] = x[0]          # ties in |x|
        if k == 2 and p > 1:
            x[1] = -x[0]
        if name == "SLOPE" and k in (3, 4, 5):
            # magnitudes around the thresholds, rank by rank: the regime where the answer is decided by the partial
            # sums of the sorted sequence and not by the largest entry alone
            lo, hi = {3: (0.7, 1.3), 4: (0.9, 1.0), 5: (0.3, 0.99)}[k]
            mags = s * np.asarray(prm["alphas"]) * rng.uniform(lo, hi, size=p)
            if k == 5:
                mags = np.full(p, 0.97 * s * float(np.max(prm["alphas"])))     # all just below the largest threshold
                mags *= rng.uniform(0.9, 1.0, size=p)
            x = (mags * rng.choice([-1.0, 1.0], size=p))[rng.permutation(p)]
        cid = "%s/e%d" % (base, k)
        try:
            u = np.asarray(cp.prox_vec(np.ascontiguousarray(x), s), float)
        except Exception as e:
            _emit_exc(emit, cid, name + ".prox_vec", name, e, x, s, ps)
            continue
        if name == "SLOPE":
            phi = lambda v: 0.5 * norm(v - x) ** 2 + s * R.slope_value(v, prm["alphas"])  # noqa
            ustar = R.slope_prox(x, s * prm["alphas"])
            fmin = phi(ustar)
            for _ in range(50):   # oracle sanity: the isotonic solution must beat random perturbations
                assert phi(ustar + 1e-3 * rng.standard_normal(p)) >= fmin - 1e-12 * (1 + abs(fmin))
            fu = phi(u) if np.all(np.isfinite(u)) else np.nan
        else:
            fu = float(np.sum(ref.prox_obj_1d(u, x, s))) if np.all(np.isfinite(u)) else np.nan
            fmin = float(sum(ref.prox_1d(float(xj), s)[1] for xj in x))
        sample = dict(penalty=name, params=ps, x=x.tolist(), step=s, prox=u.tolist(), phi=fu, phi_min=fmin) \
            if (first and k == 3) else None
        _emit_eval(emit, cid, name + ".prox_vec", name, fu, fmin, u, x, s, ps, sample, True)
