"""C05 — warm starts and regularisation paths solve the problem they are asked.

Monitors:
  (a) conservation invariant "model-fit buffer == X w + b" at every hook event and on return of traced runs
      started from arbitrary consistent warm starts (support larger/smaller than the working set, mass on
      unpenalised features, coefficients on constraint bounds);
  (b) solve() chains that re-use the in-place buffers across different alphas / penalties: every step that claims
      convergence is certified for *that step's* problem;
  (c) path(): every column is certified for the alpha it is paired with, the returned grid is the requested one,
      coef_init / w_init variants (empty support with non-zero intercept, support larger than p0);
  (d) warm_start estimators refitted after hyper-parameter changes are certified for the new problem.
"""
import warnings
import numpy as np
from numpy.linalg import norm

from vlib import cases as K
from vlib import compose as C
from vlib import oracles as O
from vlib import refmath as R
from vlib.common import rng_for, want, small
from vlib.runner import digest

PROPERTY = "C05"
LEVEL = "exploration"
TECHNIQUE = "runtime monitoring: conservation invariant at hooks + offline certificate checker over recorded solve/fit/path histories"
LEVEL_TEXT = ("Histories of solves, path sweeps and warm-started refits are generated (short, many); after every step the "
              "caller-visible model-fit buffer must equal X w + b (also at every hook-observed intermediate state) and "
              "every step that claims convergence must satisfy the reference certificate of the problem of that step "
              "(its own alpha, weights, data).")
LEVEL_NOTE = ("trusted: vlib/refmath.py; conservation tolerance 1e-7 relative (extrapolation arithmetic reaches 1e-9, logic "
              "errors are O(1e-2..1)); generator always supplies Xw_init = X w_init + b")
RULE = ("cases = histories: (a) traced run from a warm start, (b) chain of 2-5 solves re-using buffers, (c) path over a "
        "grid of 1-8 alphas in increasing/decreasing/shuffled order with repeats, (d) estimator refits; non-trivial = at "
        "least one step converged and one step started from a non-zero point; distinct = digest(history spec)")
SLACK = dict(O.SLACK)
ASSUMPTIONS = ["sklearn _validate_data shim for regression estimators", "reference certificate in vlib/refmath.py"]
FLOOR = {"quick": 250, "thorough": 4000}
REPS = {"quick": 6, "thorough": 90}

CONS_CELLS = [("AndersonCD", "Quadratic", p) for p in ("L1", "WeightedL1", "IndicatorBox", "MCPenalty", "L1_plus_L2")] + \
             [("AndersonCD", "Logistic", p) for p in ("L1", "WeightedL1", "IndicatorBox")] + \
             [("AndersonCD", "Huber", "WeightedL1"), ("AndersonCD", "QuadraticSVC", "IndicatorBox")] + \
             [("ProxNewton", "Logistic", "L1"), ("ProxNewton", "Poisson", "WeightedL1"), ("ProxNewton", "Quadratic", "L1")] + \
             [("GroupBCD", "QuadraticGroup", "WeightedGroupL2"), ("GroupBCD", "LogisticGroup", "WeightedGroupL2"),
              ("GroupBCD", "QuadraticGroup", "WeightedL1GroupL2"),
              ("GroupProxNewton", "LogisticGroup", "WeightedGroupL2")] + \
             [("MultiTaskBCD", "QuadraticMultiTask", p) for p in ("L2_1", "BlockMCPenalty")]


def plan(tier, seed):
    shards = []
    by = {}
    for c in CONS_CELLS:
        by.setdefault((c[0], c[1]), []).append(c[2])
    for (s, d), pens in by.items():
        shards.append(dict(name="cons/%s/%s" % (s, d), mode="cons", solver=s, datafit=d, penalties=pens, reps=REPS[tier]))
    for est in ("Lasso", "ElasticNet", "WeightedLasso", "MCPRegression", "MultiTaskLasso", "SqrtLasso", "solver_path"):
        shards.append(dict(name="path/%s" % est, mode="path", est=est, reps=REPS[tier] * 2))
    for est in ("Lasso", "ElasticNet", "WeightedLasso", "MCPRegression", "GroupLasso", "SparseLogisticRegression",
                "LinearSVC", "GLE"):
        shards.append(dict(name="refit/%s" % est, mode="refit", est=est, reps=REPS[tier] * 2))
    return shards


def run_shard(spec, emit):
    fn = dict(cons=_cons_shard, path=_path_shard, refit=_refit_shard)[spec["mode"]]
    try:
        fn(spec, emit)
    except Exception:
        import traceback
        emit(dict(id=spec["name"] + "/crash", cell="harness", status="inconclusive",
                  obs=dict(tb=traceback.format_exc()[-2000:])))


# =========================================================================================== (a) + (b)
def _cons_spec(rng, solver, df, pen, seed, coords):
    info = K.SOLVER_INFO[solver]
    storage = str(rng.choice(["dense", "csc"])) if info["sparse"] else "dense"
    strategy = str(rng.choice(info["strategies"]))
    if pen == "WeightedL1GroupL2":
        strategy = "fixpoint"
    icpt = bool(rng.integers(0, 2)) and info["intercept"] and df not in ("QuadraticSVC", "Cox")
    if not K.compatible(solver, df, pen, storage, icpt, strategy):
        storage = "dense"
    n, p = int(rng.integers(10, 40)), int(rng.integers(4, 22))
    knobs = dict(tol=float(rng.choice([1e-4, 1e-7])), p0=int(rng.choice([1, 2, 3, 10])))
    if solver == "MultiTaskBCD":
        knobs["use_acc"] = bool(rng.integers(0, 2))
    mut = None
    if rng.random() < 0.35 and p > 3:
        mut = str(rng.choice(["zero_col@first", "zero_col@middle", "zero_col@last", "zero_cols_many"]))   # empty CSC columns
    return K.widen(rng, dict(check="C05", seed=seed, coords=coords, solver=solver, datafit=df, penalty=pen, storage=storage,
                fit_intercept=icpt, strategy=strategy, n=n, p=p, mutate_X=mut,
                xkind=str(rng.choice(["gauss", "ar", "shifted"])), rho=float(rng.choice([0.5, 0.95])),
                alpha_frac=float(rng.choice([0.02, 0.1, 0.4])),
                positive=bool(rng.integers(0, 2)) if pen in K.POSFLAG + ["WeightedGroupL2"] else False,
                zero_weights=True, knobs=knobs, group_style=str(rng.choice(["contig", "perm"])),
                n_tasks=int(rng.integers(1, 4)), warm=str(rng.choice(["dense", "sparse", "dense"])),
                buffers="strided" if rng.random() < 0.2 else "contiguous"),
                   prob=0.1, n_range=(40, 100), p_range=(60, 250))


def _drift_viol(case, where, d, rel):
    return dict(mechanism="model-fit-buffer-differs-from-Xw", solver=case.solver_name, datafit=case.df_name,
                penalty=case.pen_name, storage=case.storage, fit_intercept=case.fit_intercept,
                strategy=case.strategy, where=where, drift_rel=rel,
                detail="%s: |Xw_buf - (Xw+b)|_inf = %.3g (relative %.3g)" % (where, d, rel))


def _cons_shard(spec, emit):
    solver, df, seed = spec["solver"], spec["datafit"], spec["seed"]
    for pen in spec["penalties"]:
        for rep in range(spec["reps"]):
            cid = "cons/%s/%s/%s/r%d" % (solver, df, pen, rep)
            if not want(spec, cid):
                continue
            rng = rng_for("C05", seed, "cons", solver, df, pen, rep)
            cs = _cons_spec(rng, solver, df, pen, seed, ["cons", solver, df, pen, rep])
            case = K.Case(cs)
            base = dict(id=cid, cell="conservation|" + case.cell(), digest=digest(cs))
            info = K.SOLVER_INFO[solver]
            b_it, b_ep = (info["budget"] + (None,))[:2]
            viols, counts = [], dict(buffer_checks=0, chain_steps=0, converged_steps=0)
            drifts = []
            # ---------------- (a) traced run from a warm start
            w0, xw0 = case.start(cs["warm"])
            budget = {b_it: int(rng.integers(1, 5))}
            if b_ep:
                budget[b_ep] = int(rng.choice([7, 14, 22, 60])) if solver != "MultiTaskBCD" else int(rng.choice([12, 14, 24, 60]))
            if b_ep == "max_epochs" and rng.random() < 0.25:
                # many outer iterations of 1-3 epochs: Anderson histories and extrapolations straddle working-set changes
                budget = {b_it: 40, b_ep: int(rng.integers(1, 4))}
            out = case.solve(w0, xw0, trace_kinds=("epoch", "outer_end", "return"), **budget)
            if out["exc"] is not None:
                emit(dict(base, status="refused", nontrivial=False, obs=dict(exc=repr(out["exc"])[:300],
                                                                          case=case.describe())))
                continue
            for k, p in out["trace"].events:
                if p.get("Xw") is None:
                    continue
                d, rel = O.buffer_drift(case, p["w"], p["Xw"])
                counts["buffer_checks"] += 1
                drifts.append(rel)
                if not (rel <= O.SLACK["conservation_rel"]):
                    viols.append(_drift_viol(case, "%s(t=%s,epoch=%s)" % (k, p.get("t"), p.get("epoch")), d, rel))
            # the caller's buffers are updated in place: they must be the returned point
            d, rel = O.buffer_drift(case, out["w"], out["Xw_buf"])
            counts["buffer_checks"] += 1
            drifts.append(rel)
            if not (rel <= O.SLACK["conservation_rel"]):
                viols.append(_drift_viol(case, "caller-buffer-on-return", d, rel))
            if not np.array_equal(out["w"], out["w_buf"]):
                viols.append(dict(mechanism="returned-coefficients-are-not-the-callers-buffer", solver=solver,
                                  detail="solve() returned an array different from the in-place updated w_init"))
            # ---------------- (b) chain: keep solving with changed alpha, re-using the same buffers
            wbuf, xbuf = out["w_buf"], out["Xw_buf"]
            steps = []
            for step in range(int(rng.integers(2, 5))):
                frac = float(rng.choice([0.01, 0.05, 0.2, 0.6, 1.1]))
                cs2 = dict(cs, alpha_frac=frac)
                case2 = K.Case(cs2)         # same rng coords => same data; only alpha differs
                assert np.array_equal(case2.Xd, case.Xd)
                o2 = case2.solve(wbuf, xbuf, **{b_it: 60, **({b_ep: 2000} if b_ep == "max_epochs" else ({b_ep: 100} if b_ep else {}))})
                counts["chain_steps"] += 1
                if o2["exc"] is not None:
                    steps.append(("exc", repr(o2["exc"])[:100]))
                    break
                # solve works on copies inside Case.solve: feed the results forward as the next warm start
                wbuf, xbuf = o2["w_buf"], o2["Xw_buf"]
                f = O.judge_return(case2, o2, case2.tol())
                steps.append((frac, f.get("stop"), f.get("cert")))
                if f.get("converged"):
                    counts["converged_steps"] += 1
                elif f.get("finite_w") and f.get("stop", 0) > 100 * case2.tol():
                    # (a warm start that is merely slower near the tolerance is not judged: only stalls far from it)
                    # "the same optimality certificate as a cold start": if the cold start reaches the tolerance
                    # within this (generous) budget, the warm start must reach it too
                    o3 = case2.solve(None, None, **{b_it: 60, **({b_ep: 2000} if b_ep == "max_epochs" else ({b_ep: 100} if b_ep else {}))})
                    counts["cold_start_comparisons"] = counts.get("cold_start_comparisons", 0) + 1
                    gapF = None
                    if o3["exc"] is None and o3["stop"] <= case2.tol():
                        gapF = case2.ref.objective(o2["w"]) - case2.ref.objective(o3["w"])
                    # slow convergence on a flat objective (near-separable logistic data, huge coefficients) is not a
                    # stall: only a warm run that ends materially worse than the cold one is judged
                    if gapF is not None and gapF > 1e-3 * (1 + abs(case2.ref.objective(o3["w"]))):
                        viols.append(dict(mechanism="warm-start-fails-where-cold-start-converges", solver=solver, datafit=df,
                                          penalty=pen, storage=case.storage, fit_intercept=case.fit_intercept,
                                          strategy=case.strategy, step=step, warm_stop=f.get("stop"), cold_stop=o3["stop"],
                                          objective_gap=float(gapF),
                                          detail="chain step %d: warm start stops at %.3g > tol=%g after the budget in which a "
                                                 "cold start reaches %.3g" % (step, f.get("stop"), case2.tol(), o3["stop"])))
                if O.cert_violated(f, case2.tol()):
                    viols.append(dict(mechanism="warm-started-step-fails-certificate", solver=solver, datafit=df,
                                      penalty=pen, storage=case.storage, fit_intercept=case.fit_intercept,
                                      strategy=case.strategy, step=step, tol=case2.tol(), cert=f["cert"],
                                      ratio=f["cert"] / case2.tol(), drift_rel=f.get("drift_rel"),
                                      buffer_cert_ok=(f.get("cert_buf") is not None and
                                                      f["cert_buf"] <= case2.tol() * (1 + 1e-6)),
                                      detail="chain step %d (alpha_frac=%g): stop=%.3g <= tol but cert=%.3g" % (
                                          step, frac, f["stop"], f["cert"])))
                if f.get("drift_rel") is not None:
                    drifts.append(f["drift_rel"])
                    counts["buffer_checks"] += 1
                    if not (f["drift_rel"] <= O.SLACK["conservation_rel"]):
                        viols.append(_drift_viol(case2, "chain-step-%d-return" % step, f["drift"], f["drift_rel"]))
            rec = dict(base, nontrivial=bool(counts["converged_steps"] >= 1), count=counts,
                       hist={"max_drift_rel_decade": "%d" % (np.floor(np.log10(max(max(drifts), 1e-18))) if drifts else -18),
                             "size": cs.get("size", "small")})
            if viols:
                rec.update(status="violated", viol=viols[0], viols=viols[:30],
                           obs=dict(case=case.describe(), steps=steps, all=[v["detail"] for v in viols[:6]]))
            else:
                rec["status"] = "held"
            if rep == 0:
                rec["sample"] = dict(case=case.describe(), warm=cs["warm"], first_budget=budget, chain=steps,
                                     max_drift_rel=max(drifts) if drifts else None)
            emit(rec)


# =========================================================================================== (c) paths
def _grid(rng, amax):
    m = int(rng.integers(1, 9))
    al = amax * 10 ** rng.uniform(-2.5, 0.1, size=m)
    order = str(rng.choice(["decreasing", "increasing", "shuffled", "repeats"]))
    if order == "decreasing":
        al = np.sort(al)[::-1]
    elif order == "increasing":
        al = np.sort(al)
    elif order == "repeats" and m > 1:
        al[1] = al[0]
    return np.ascontiguousarray(al), order


def _path_shard(spec, emit):
    from skglm.estimators import Lasso, ElasticNet, WeightedLasso, MCPRegression, MultiTaskLasso
    from skglm.experimental.sqrt_lasso import SqrtLasso
    est_name, seed = spec["est"], spec["seed"]
    for rep in range(spec["reps"]):
        cid = "path/%s/r%d" % (est_name, rep)
        if not want(spec, cid):
            continue
        rng = rng_for("C05", seed, "path", est_name, rep)
        n, p = int(rng.integers(12, 40)), int(rng.integers(3, 18))
        wide = bool(rng.random() < 0.12)
        if wide:         # many more features than the first working set: the sweep has to grow it from column to column
            n, p = int(rng.integers(40, 100)), int(rng.integers(60, 250))
        X = C.make_X(rng, n, p, str(rng.choice(["gauss", "ar", "shifted"])), rho=0.9)
        sparse_in = bool(rng.integers(0, 2)) and est_name not in ("SqrtLasso",)
        icpt = bool(rng.integers(0, 2))
        tol = float(rng.choice([1e-4, 1e-7]))
        p0 = int(rng.choice([1, 2, 10]))
        multi = est_name == "MultiTaskLasso"
        T = int(rng.integers(1, 4))
        y = C.make_target(rng, X, "multi" if multi else "real", n_tasks=T)
        positive = bool(rng.integers(0, 2)) and est_name in ("Lasso", "ElasticNet", "WeightedLasso", "MCPRegression")
        base = dict(id=cid, cell="path|%s|%s|icpt=%d" % (est_name, "csc" if sparse_in else "dense", icpt),
                    digest=digest(cid, seed))
        Xin = C.to_storage(X, "csc") if sparse_in else X
        # reference ingredients
        if multi:
            refdf = R.RefDatafit("multitask")
            g0 = X.T @ (y - (y.mean(axis=0) if icpt else 0)) / n
            amax = float(np.max(norm(g0, axis=1)))
        elif est_name == "SqrtLasso":
            refdf = R.RefDatafit("sqrtquad")
            icpt = False
            amax = float(np.max(np.abs(X.T @ y)) / norm(y))
        else:
            refdf = R.RefDatafit("quadratic")
            amax = float(np.max(np.abs(X.T @ (y - (y.mean() if icpt else 0)))) / n)
        alphas, order = _grid(rng, amax)
        kw = dict(tol=tol, p0=p0, max_iter=80, max_epochs=3000)
        wts = rng.uniform(0.3, 2.0, size=p)
        if rng.random() < 0.5:
            wts[rng.choice(p, max(1, p // 5), replace=False)] = 0.0
        gamma = float(rng.choice([3.0, 10.0]))
        l1r = float(rng.choice([0.3, 0.8, 1.0]))

        def refpen(a):
            if est_name in ("Lasso", "SqrtLasso", "solver_path"):
                return R.RefPenalty("l1", alpha=a, positive=positive)
            if est_name == "ElasticNet":
                return R.RefPenalty("enet", alpha=a, l1_ratio=l1r, positive=positive)
            if est_name == "WeightedLasso":
                return R.RefPenalty("wl1", alpha=a, weights=wts, positive=positive)
            if est_name == "MCPRegression":
                return R.RefPenalty("mcp", alpha=a, gamma=gamma, positive=positive)
            return R.RefPenalty("l21", alpha=a)
        # coef_init variants
        init_kind = str(rng.choice(["none", "none", "intercept_only", "dense", "sparse"]))
        coef_init = None
        if init_kind != "none" and est_name not in ("SqrtLasso",):
            shape = (p + icpt, T) if multi else (p + icpt,)
            ci = np.zeros(shape)
            if init_kind == "dense":
                ci[:p] = rng.standard_normal((p,) + shape[1:])
            elif init_kind == "sparse":
                idx = rng.choice(p, max(1, p // 3), replace=False)
                ci[idx] = rng.standard_normal((len(idx),) + shape[1:])
            if positive:
                ci[:p] = np.abs(ci[:p])
            if icpt:
                ci[-1] = rng.standard_normal(shape[1:]) * 2.5 + 1.0
            elif init_kind == "intercept_only":
                init_kind = "none"
                ci = None
            coef_init = ci
        try:
            with warnings.catch_warnings():
                warnings.simplefilter("ignore")
                if est_name == "Lasso":
                    res = Lasso(alpha=1., positive=positive, fit_intercept=icpt, **kw).path(
                        Xin, y, alphas.copy(), coef_init=None if coef_init is None else coef_init.copy())
                elif est_name == "ElasticNet":
                    res = ElasticNet(alpha=1., l1_ratio=l1r, positive=positive, fit_intercept=icpt, **kw).path(
                        Xin, y, alphas.copy(), coef_init=None if coef_init is None else coef_init.copy())
                elif est_name == "WeightedLasso":
                    res = WeightedLasso(alpha=1., weights=wts.copy(), positive=positive, fit_intercept=icpt, **kw).path(
                        Xin, y, alphas.copy(), coef_init=None if coef_init is None else coef_init.copy())
                elif est_name == "MCPRegression":
                    res = MCPRegression(alpha=1., gamma=gamma, positive=positive, fit_intercept=icpt, **kw).path(
                        Xin, y, alphas.copy(), coef_init=None if coef_init is None else coef_init.copy())
                elif est_name == "MultiTaskLasso":
                    ci = None if coef_init is None else np.ascontiguousarray(coef_init.T)
                    res = MultiTaskLasso(alpha=1., fit_intercept=icpt, tol=tol, p0=p0, max_iter=80,
                                         max_epochs=3000).path(Xin, y, alphas.copy(), coef_init=ci)
                elif est_name == "SqrtLasso":
                    res = SqrtLasso(alpha=1., tol=tol, p0=p0, max_iter=80).path(X, y, alphas=alphas.copy())
                else:
                    from skglm.solvers import AndersonCD
                    from skglm.datafits import Quadratic
                    from skglm.penalties import L1
                    res = AndersonCD(fit_intercept=icpt, **kw).path(
                        Xin, y, C.compiled(Quadratic()), C.compiled(L1(1., positive)), alphas.copy(),
                        w_init=None if coef_init is None else coef_init.copy())
        except Exception as e:
            emit(dict(base, status="violated" if init_kind != "none" or True else "refused", nontrivial=True,
                      viol=dict(mechanism="path-raises", estimator=est_name, exc=type(e).__name__, init=init_kind,
                                storage="csc" if sparse_in else "dense", detail=repr(e)[:300]),
                      obs=dict(alphas=alphas, init=init_kind, n=n, p=p)))
            continue
        ret_alphas, coefs = np.asarray(res[0], float), np.asarray(res[1], float)
        stop_crits = np.asarray(res[2], float) if len(res) > 2 and est_name != "SqrtLasso" else None
        viols, nconv = [], 0
        if est_name == "SqrtLasso":
            if not np.array_equal(np.sort(ret_alphas), np.sort(alphas)):
                viols.append(dict(mechanism="returned-grid-differs-from-requested", estimator=est_name,
                                  detail="%s vs %s" % (ret_alphas, alphas)))
        elif not np.array_equal(ret_alphas, alphas):
            viols.append(dict(mechanism="returned-grid-differs-from-requested", estimator=est_name,
                              detail="%s vs %s" % (ret_alphas, alphas)))
        broke = False
        for t in range(len(ret_alphas)):
            a = float(ret_alphas[t])
            if est_name == "SqrtLasso":
                coef = coefs[t]
                sc = None
                if norm(y - X @ coef) < 1e-2 * norm(y):
                    broke = True      # documented: the sweep stops here with a ConvergenceWarning
            elif multi:
                coef = coefs[:, :, t].T          # (n_features + icpt, n_tasks)
                sc = stop_crits[t]
            else:
                coef = coefs[:, t]
                sc = stop_crits[t]
            if not np.all(np.isfinite(coef)):
                viols.append(dict(mechanism="path-returns-non-finite", estimator=est_name, t=t, detail="alpha=%g" % a))
                continue
            prob = R.RefProblem(X, y, refdf, refpen(a), icpt)
            if est_name == "SqrtLasso":
                if norm(y - X @ coef) < 1e-2 * norm(y):
                    continue                       # documented early stop on small residuals
                cert = prob.cert_subdiff(coef)[0]
                # no stop_crit is exposed: judge with the estimator's tolerance after its generous budget
                claimed = True
            else:
                cert = prob.cert_subdiff(coef)[0]
                claimed = sc <= tol
            if claimed:
                nconv += 1
                slack = 1e-10 * (1 + float(np.max(np.abs(prob.gradient(coef))))) + prob.dot_error_bound(coef)
                if not R.leq(cert, tol * (1 + 1e-6) + slack, rel=0.0):
                    viols.append(dict(mechanism="path-column-fails-certificate", estimator=est_name, t=t, init=init_kind,
                                      after_small_residual_break=bool(broke and est_name == "SqrtLasso" and not np.any(coef)),
                                      order=order, fit_intercept=icpt, positive=positive, tol=tol, cert=cert,
                                      ratio=cert / tol, storage="csc" if sparse_in else "dense",
                                      detail="column %d (alpha=%.4g, %s grid, init=%s): stop_crit=%s <= tol=%g but "
                                             "reference violation=%.3g" % (t, a, order, init_kind, sc, tol, cert)))
        rec = dict(base, nontrivial=bool(nconv >= 1), count=dict(path_columns=len(ret_alphas), converged_columns=nconv),
                   hist={"grid_order": order, "init": init_kind, "size": "wide" if wide else "small"})
        if viols:
            rec.update(status="violated", viol=viols[0], viols=viols[:30],
                       obs=dict(alphas=alphas, init=init_kind, n=n, p=p, tol=tol, p0=p0, positive=positive,
                                all=[v["detail"] for v in viols[:6]]))
        else:
            rec["status"] = "held"
        if rep == 0:
            rec["sample"] = dict(estimator=est_name, alphas=alphas.tolist(), order=order, init=init_kind,
                                 stop_crits=None if stop_crits is None else stop_crits.tolist(), tol=tol)
        emit(rec)


# =========================================================================================== (d) warm_start refits
def _refit_shard(spec, emit):
    import skglm.estimators as E
    from skglm.solvers import AndersonCD
    from skglm.datafits import Quadratic
    from skglm.penalties import L1
    est_name, seed = spec["est"], spec["seed"]
    for rep in range(spec["reps"]):
        cid = "refit/%s/r%d" % (est_name, rep)
        if not want(spec, cid):
            continue
        rng = rng_for("C05", seed, "refit", est_name, rep)
        n, p = int(rng.integers(12, 40)), int(rng.integers(4, 16))
        X = C.make_X(rng, n, p, str(rng.choice(["gauss", "ar", "shifted"])), rho=0.9)
        classif = est_name in ("SparseLogisticRegression", "LinearSVC")
        y = C.make_target(rng, X, "pm1" if classif else "real")
        icpt = bool(rng.integers(0, 2))
        tol = float(rng.choice([1e-4, 1e-7]))
        groups = C.make_groups(rng, p)
        wts = rng.uniform(0.3, 2.0, size=p)
        base = dict(id=cid, cell="refit|%s|icpt=%d" % (est_name, icpt), digest=digest(cid, seed))
        if classif:
            amax = float(np.max(np.abs(X.T @ y)) / (2 * n))
        else:
            amax = float(np.max(np.abs(X.T @ (y - (y.mean() if icpt else 0)))) / n)

        def build(a, extra):
            kw = dict(tol=tol, warm_start=True)
            if est_name == "Lasso":
                return E.Lasso(alpha=a, fit_intercept=icpt, max_iter=80, max_epochs=3000, **kw), \
                    (R.RefDatafit("quadratic"), R.RefPenalty("l1", alpha=a), icpt)
            if est_name == "ElasticNet":
                return E.ElasticNet(alpha=a, l1_ratio=extra, fit_intercept=icpt, max_iter=80, max_epochs=3000, **kw), \
                    (R.RefDatafit("quadratic"), R.RefPenalty("enet", alpha=a, l1_ratio=extra), icpt)
            if est_name == "WeightedLasso":
                return E.WeightedLasso(alpha=a, weights=wts * extra, fit_intercept=icpt, max_iter=80, max_epochs=3000, **kw), \
                    (R.RefDatafit("quadratic"), R.RefPenalty("wl1", alpha=a, weights=wts * extra), icpt)
            if est_name == "MCPRegression":
                return E.MCPRegression(alpha=a, gamma=3.0 + 5 * extra, fit_intercept=icpt, max_iter=80, max_epochs=3000, **kw), \
                    (R.RefDatafit("quadratic"), R.RefPenalty("mcp", alpha=a, gamma=3.0 + 5 * extra), icpt)
            if est_name == "GroupLasso":
                return E.GroupLasso(groups=[len(g) for g in groups], alpha=a, fit_intercept=icpt, max_iter=200,
                                    max_epochs=3000, **kw), \
                    (R.RefDatafit("quadratic"), R.RefPenalty("group", alpha=a, weights=np.ones(len(groups)),
                                                             groups=groups), icpt)
            if est_name == "SparseLogisticRegression":
                return E.SparseLogisticRegression(alpha=a, fit_intercept=icpt, max_iter=80, max_epochs=300, **kw), \
                    (R.RefDatafit("logistic"), R.RefPenalty("l1", alpha=a), icpt)
            if est_name == "LinearSVC":
                Cc = 0.05 / max(a, 1e-6)
                return E.LinearSVC(C=Cc, max_iter=80, max_epochs=3000, **kw), ("svc", Cc, False)
            return E.GeneralizedLinearEstimator(Quadratic(), L1(a), AndersonCD(tol=tol, warm_start=True,
                                                                               fit_intercept=icpt, max_epochs=3000)), \
                (R.RefDatafit("quadratic"), R.RefPenalty("l1", alpha=a), icpt)

        est = None
        viols, nconv, hist = [], 0, []
        n_steps = int(rng.integers(2, 6))
        for step in range(n_steps):
            a = amax * float(10 ** rng.uniform(-2, 0.1))
            extra = float(rng.choice([0.3, 0.7, 1.0]))
            new, refspec = build(a, extra)
            if est is None:
                est = new
            else:
                # "refitting a warm_start estimator after changing its hyper-parameters"
                est.set_params(**{k: v for k, v in new.get_params(deep=False).items()
                                  if k in ("alpha", "l1_ratio", "weights", "gamma", "C")}) if est_name != "GLE" else None
                if est_name in ("Lasso", "ElasticNet", "WeightedLasso", "MCPRegression", "GroupLasso", "SparseLogisticRegression") \
                        and rng.random() < 0.4:
                    # also toggle structural hyper-parameters between fits
                    icpt = not icpt
                    est.set_params(fit_intercept=icpt)
                    refspec = (refspec[0], refspec[1], icpt)
                if est_name == "GLE":
                    est.penalty = L1(a)
                if rng.random() < 0.35:
                    # the next batch / another fold: other data of the same shape (a warm start re-uses the previous
                    # coefficients, nothing else of the previous fit)
                    X = C.make_X(rng, n, p, str(rng.choice(["gauss", "ar", "shifted"])), rho=0.9)
                    y = C.make_target(rng, X, "pm1" if classif else "real")
                    if classif and rng.random() < 0.5:
                        y = -y          # the same two classes with their roles exchanged
            try:
                with warnings.catch_warnings():
                    warnings.simplefilter("ignore")
                    est.fit(X, y)
            except Exception as e:
                viols.append(dict(mechanism="warm-refit-raises", estimator=est_name, step=step, exc=type(e).__name__,
                                  detail=repr(e)[:300]))
                break
            sc = getattr(est, "stop_crit_", None)
            if refspec[0] == "svc":
                Cc = refspec[1]
                A = (X * y[:, None]).T
                prob = R.RefProblem(A, y, R.RefDatafit("svc"), R.RefPenalty("box", alpha=Cc), False)
                coef = np.asarray(est.dual_coef_).ravel()
            else:
                prob = R.RefProblem(X, y, refspec[0], refspec[1], refspec[2])
                coef = np.r_[np.ravel(est.coef_), est.intercept_] if refspec[2] else np.ravel(est.coef_)
            cert = prob.cert_subdiff(coef)[0]
            hist.append((step, a, extra, sc, cert))
            if sc is not None and sc <= tol:
                nconv += 1
                slack = 1e-10 * (1 + float(np.max(np.abs(prob.gradient(coef))))) + prob.dot_error_bound(coef)
                if not R.leq(cert, tol * (1 + 1e-6) + slack, rel=0.0):
                    viols.append(dict(mechanism="warm-refit-fails-certificate", estimator=est_name, step=step,
                                      fit_intercept=icpt, tol=tol, cert=cert, ratio=cert / tol,
                                      detail="refit %d (alpha=%.4g): stop_crit_=%.3g <= tol=%g but reference "
                                             "violation=%.3g" % (step, a, sc, tol, cert)))
        # a warm-started estimator fitted on data of a different width must raise, not reuse its coefficients
        if est is not None and not viols and est_name not in ("GroupLasso",):
            X2 = C.make_X(rng, n, p + 2, "gauss")
            try:
                with warnings.catch_warnings():
                    warnings.simplefilter("ignore")
                    est.fit(X2, y)
                c2 = np.ravel(est.coef_)
                if c2.shape[0] != p + 2:
                    viols.append(dict(mechanism="warm-refit-on-different-width-reuses-state", estimator=est_name,
                                      detail="coef_ has %d entries for %d features" % (c2.shape[0], p + 2)))
            except (ValueError, TypeError):
                pass
            except Exception as e:
                viols.append(dict(mechanism="warm-refit-on-different-width-crashes", estimator=est_name,
                                  exc=type(e).__name__, detail=repr(e)[:300]))
        rec = dict(base, nontrivial=bool(nconv >= 1 and n_steps >= 2), count=dict(refits=len(hist), converged_refits=nconv))
        if viols:
            rec.update(status="violated", viol=viols[0], viols=viols[:20], obs=dict(history=hist, n=n, p=p, tol=tol))
        else:
            rec["status"] = "held"
        if rep == 0:
            rec["sample"] = dict(estimator=est_name, history=[dict(step=h[0], alpha=h[1], stop_crit=h[3],
                                                                    reference_violation=h[4]) for h in hist])
        emit(rec)
