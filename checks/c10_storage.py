"""C10 — results do not depend on how X is stored.

Monitor: the same problem is handed to the real solver / estimator in several containers (dense Fortran / C order,
non-contiguous view, CSC with sorted / unsorted / int64 indices; through estimators also CSR, nested lists, float32).
Every container must either be solved — and then all solved variants must agree on the reference objective within
the margin implied by their measured certificates (convex), or each meet its certificate (non-convex) — or be
refused by a Python-level ValueError / TypeError / AttributeError.  Errors from compiled code (numba typing /
lowering, IndexError, ...) or a silently different answer are violations.
"""
import warnings
import numpy as np
import scipy.sparse as sp

from vlib import cases as K
from vlib import compose as C
from vlib import refmath as R
from vlib.common import rng_for, want, small
from vlib.runner import digest

PROPERTY = "C10"
LEVEL = "exploration"
TECHNIQUE = "runtime monitoring: differential oracle across storage formats of the same problem (certified objective margin), refusal classifier"
LEVEL_TEXT = ("Each generated problem is solved in 5-8 containers by the real solver or estimator; solved variants are "
              "compared through the reference objective with the margin implied by their measured certificates (never by "
              "coefficients, which are non-unique on collinear designs); unsupported containers must be refused by a "
              "Python-level error.")
LEVEL_NOTE = ("float32 variants are compared at single precision (relative 1e-3 on the objective, certificates measured in "
              "float64); cells using the random power method (CSC FISTA / group Lipschitz) are deterministic enough for the "
              "objective margin because it uses measured certificates")
RULE = ("cases = (solver|estimator, datafit, penalty, instance) x containers; non-trivial = at least two containers were "
        "solved and converged; distinct = digest(case)")
SLACK = {"objective_rounding_rel": 1e-11, "float32_objective_rel": 1e-3}
ASSUMPTIONS = ["sklearn _validate_data shim for regression estimators"]
FLOOR = {"quick": 120, "thorough": 2000}
REPS = {"quick": 3, "thorough": 60}

FAMILIES = [
    ("AndersonCD", "Quadratic", "L1"), ("AndersonCD", "Quadratic", "MCPenalty"), ("AndersonCD", "Logistic", "WeightedL1"),
    ("AndersonCD", "Huber", "L1_plus_L2"), ("AndersonCD", "WeightedQuadratic", "L1"), ("AndersonCD", "QuadraticSVC", "IndicatorBox"),
    ("ProxNewton", "Logistic", "L1"), ("ProxNewton", "Poisson", "L1"), ("ProxNewton", "Cox", "L1_plus_L2"),
    ("ProxNewton", "Quadratic", "WeightedL1"), ("ProxNewton", "WeightedQuadratic", "L1"),
    ("GroupBCD", "QuadraticGroup", "WeightedGroupL2"), ("GroupBCD", "LogisticGroup", "WeightedGroupL2"),
    ("MultiTaskBCD", "QuadraticMultiTask", "L2_1"), ("GramCD", None, "L1"),
    ("FISTA", "Quadratic", "L1"), ("FISTA", "Logistic", "L1"), ("FISTA", "WeightedQuadratic", "L1"),
    ("LBFGS", "Logistic", "L2"), ("LBFGS", "Cox", "L2"), ("LBFGS", "Quadratic", "L2"),
]
ESTS = ["Lasso", "ElasticNet", "WeightedLasso", "MCPRegression", "GroupLasso", "MultiTaskLasso",
        "SparseLogisticRegression", "LinearSVC", "CoxEstimator", "GeneralizedLinearEstimator"]
CONTAINERS = ["dense_F", "dense_C", "dense_view", "csc", "csc_unsorted", "csc_i64", "csc_explicit0"]
EST_CONTAINERS = ["dense_F", "dense_C", "csc", "csr", "list", "float32", "csc_float32"]


def plan(tier, seed):
    sh = [dict(name="%s/%s/%s" % f, mode="solver", family=list(f), reps=REPS[tier]) for f in FAMILIES]
    sh += [dict(name="est/%s" % e, mode="est", est=e, reps=REPS[tier] * 2) for e in ESTS]
    return sh


def container(X, kind):
    if kind == "dense_F":
        return np.asfortranarray(X)
    if kind == "dense_C":
        return np.ascontiguousarray(X)
    if kind == "dense_view":
        big = np.zeros((X.shape[0] * 2, X.shape[1] * 2 + 1), order="F")
        big[::2, 1::2] = X
        v = big[::2, 1::2]
        assert not v.flags["C_CONTIGUOUS"] and not v.flags["F_CONTIGUOUS"]
        return v
    if kind == "csc":
        return C.to_storage(X, "csc")
    if kind == "csc_unsorted":
        return C.to_storage(X, "csc_unsorted")
    if kind == "csc_i64":
        Xs = C.to_storage(X, "csc")
        return sp.csc_matrix((Xs.data, Xs.indices.astype(np.int64), Xs.indptr.astype(np.int64)), shape=Xs.shape)
    if kind == "csc_explicit0":
        return C.to_storage(X, "csc_explicit0")
    if kind == "csr":
        return sp.csr_matrix(X)
    if kind == "list":
        return X.tolist()
    if kind == "float32":
        return np.asfortranarray(X.astype(np.float32))
    if kind == "csc_float32":
        return sp.csc_matrix(X.astype(np.float32))
    raise KeyError(kind)


def classify_exc(e):
    msg = str(e)
    compiled = (type(e).__module__ or "").startswith("numba") or any(
        m in msg for m in ("nopython", "numba", "unable to broadcast", "Failed in", "LLVM", "lowering"))
    if isinstance(e, (ValueError, TypeError, AttributeError)) and not compiled:
        return "refused"
    return "violation"


def run_shard(spec, emit):
    seed = spec["seed"]
    for rep in range(spec["reps"]):
        if spec["mode"] == "solver":
            s, d, p = spec["family"]
            cid = "%s/%s/%s/r%d" % (s, d, p, rep)
            if not want(spec, cid):
                continue
            rng = rng_for("C10", seed, s, str(d), p, rep)
            fn, args = solver_case, (emit, cid, s, d, p, rng, seed, rep)
        else:
            cid = "est/%s/r%d" % (spec["est"], rep)
            if not want(spec, cid):
                continue
            rng = rng_for("C10", seed, "est", spec["est"], rep)
            fn, args = est_case, (emit, cid, spec["est"], rng, rep)
        try:
            fn(*args)
        except Exception:
            import traceback
            emit(dict(id=cid, cell=spec["name"], status="inconclusive", obs=dict(tb=traceback.format_exc()[-1800:])))


def judge(emit, cid, cell, common, prob, tol, outs, sample, f32=()):
    """outs: {container: ('ok', coef, stop) | ('refused'|'violation', exc_name, msg)}"""
    viols = []
    solved = {k: v for k, v in outs.items() if v[0] == "ok"}
    for k, v in outs.items():
        if v[0] == "violation":
            viols.append(dict(common, mechanism="container-neither-solved-nor-refused", container=k, exc=v[1],
                              detail="%s: %s: %s" % (k, v[1], v[2][:200])))
    certs, Fs = {}, {}
    for k, (_, coef, stop) in solved.items():
        if not np.all(np.isfinite(coef)):
            viols.append(dict(common, mechanism="non-finite-result", container=k, detail=k))
            continue
        certs[k] = prob.cert_subdiff(coef)[0]
        Fs[k] = prob.objective(coef)
        if stop is not None and stop <= tol and k not in f32 and common.get("solver") != "FISTA":
            gs = 1e-10 * (1 + float(np.max(np.abs(prob.gradient(coef))))) + prob.dot_error_bound(coef)
            if not R.leq(certs[k], tol * (1 + 1e-6) + gs, rel=0.0):
                viols.append(dict(common, mechanism="container-result-fails-certificate", container=k, cert=certs[k],
                                  detail="%s: stop=%.3g <= tol=%g but reference violation=%.3g" % (k, stop, tol, certs[k])))
    conv = [k for k in certs if solved[k][2] is None or solved[k][2] <= tol]
    ref_k = next((k for k in ("dense_F", "csc") if k in conv), None)
    if ref_k is not None:
        # same algorithm, same problem, same budget: a container that is still far from the tolerance when the dense /
        # CSC baseline has converged got a different treatment of the data
        for k, (_, coef, stop) in solved.items():
            if k in certs and stop is not None and stop > 100 * tol and k not in f32:
                viols.append(dict(common, mechanism="container-does-not-converge-where-baseline-does", container=k,
                                  reference_container=ref_k, stop=float(stop),
                                  detail="%s stops at %.3g > tol=%g within the budget in which %s converges" % (k, stop, tol, ref_k)))
    if prob.pen.convex and ref_k is not None:
        for k in conv:
            if k == ref_k:
                continue
            dw = float(np.abs(solved[k][1] - solved[ref_k][1]).sum())
            margin = max(certs[k], certs[ref_k]) * dw * 1.01 + SLACK["objective_rounding_rel"] * (1 + abs(Fs[ref_k]))
            if k in f32:
                margin += SLACK["float32_objective_rel"] * (1 + abs(Fs[ref_k]))
            if not abs(Fs[k] - Fs[ref_k]) <= margin:
                viols.append(dict(common, mechanism="containers-disagree", container=k, reference_container=ref_k,
                                  gap=float(abs(Fs[k] - Fs[ref_k])),
                                  detail="F[%s]=%.12g vs F[%s]=%.12g, certified margin %.3g" % (k, Fs[k], ref_k, Fs[ref_k], margin)))
    rec = dict(id=cid, cell=cell, digest=digest(cid), nontrivial=bool(len(conv) >= 2),
               count=dict(containers_run=len(outs), containers_solved=len(solved),
                          containers_refused=sum(v[0] == "refused" for v in outs.values())),
               hist={"outcomes": ",".join("%s:%s" % (k, v[0]) for k, v in sorted(outs.items()))})
    if viols:
        rec.update(status="violated", viol=viols[0], viols=viols,
                   obs=dict(outcomes={k: (v[0], (v[1] if v[0] != "ok" else None), (v[2][:150] if v[0] != "ok" else v[2]))
                                      for k, v in outs.items()}, objectives=Fs, certs=certs))
    else:
        rec["status"] = "held"
    if sample:
        rec["sample"] = dict(common, outcomes={k: v[0] for k, v in outs.items()}, objectives=Fs)
    emit(rec)


def solver_case(emit, cid, solver, df, pen, rng, seed, rep):
    info = K.SOLVER_INFO[solver]
    icpt = bool(rng.integers(0, 2)) and info["intercept"] and df not in ("QuadraticSVC", "Cox")
    tol = 1e-8 if solver not in ("FISTA",) else 1e-6
    knobs = dict(tol=tol)
    b_it, b_ep = (info["budget"] + (None,))[:2]
    knobs[b_it] = {"FISTA": 20000, "LBFGS": 1000, "GramCD": 5000}.get(solver, 200)
    if b_ep:
        knobs[b_ep] = 5000 if b_ep == "max_epochs" else 300
    cs = dict(check="C10", seed=seed, coords=[solver, str(df), pen, rep], solver=solver, datafit=df, penalty=pen,
              storage="dense", fit_intercept=icpt, strategy="subdiff", n=int(rng.integers(12, 35)), p=int(rng.integers(3, 12)),
              xkind=str(rng.choice(["gauss", "ar", "shifted", "centered", "contrast"])), rho=0.7, density=float(rng.choice([1.0, 0.5])),
              alpha_frac=float(rng.choice([0.05, 0.3])), knobs=knobs, group_style=str(rng.choice(["contig", "perm", "trap"])),
              n_tasks=int(rng.integers(1, 4)), zero_weights=bool(rng.integers(0, 2)))
    if rng.random() < 0.4 and cs["p"] > 3:
        cs["mutate_X"] = str(rng.choice(["zero_col@first", "zero_col@middle", "zero_col@last"]))   # an empty CSC column
    if "Group" in solver or "Group" in str(df) or "Group" in pen:
        # group layouts in rotation, so that even the quick tier meets the "trap" layout (unsorted, non-adjacent
        # groups whose end points span their length) with every group-structured family on CSC input
        cs["group_style"] = ["trap", "perm", "contig"][rep % 3]
        if cs["group_style"] == "trap":
            cs["p"] = max(cs["p"], 6)
            cs["xkind"] = "centered"      # columns on different scales: a column taken for another one changes the numbers
    if df == "QuadraticMultiTask" and rep % 2 == 1:
        cs.update(n_tasks=int(rng.integers(2, 4)), mutate_y="zero_task")     # a row update then moves only some tasks
    case = K.Case(cs)
    warm = str(rng.choice(["cold", "dense"]))
    w_start, xw_start = case.start(warm)
    outs = {}
    for kind in CONTAINERS:
        case.X = container(case.Xd, kind)
        out = case.solve(w_start, xw_start)
        if out["exc"] is not None:
            e = out["exc"]
            outs[kind] = (classify_exc(e), type(e).__name__, str(e).replace("\n", " "))
        else:
            outs[kind] = ("ok", np.asarray(out["w"], float), out["stop"])
    common = dict(solver=solver, datafit=df, penalty=pen, fit_intercept=case.fit_intercept, warm=warm,
                  mutate_X=cs.get("mutate_X"))
    judge(emit, cid, "%s|%s|%s" % (solver, df, pen), common, case.ref, tol, outs, rep == 0)


def est_case(emit, cid, name, rng, rep):
    import skglm.estimators as E
    import skglm.datafits as D
    import skglm.penalties as P
    from skglm.solvers import AndersonCD
    n, p = int(rng.integers(14, 36)), int(rng.integers(3, 10))
    if name == "GroupLasso":
        p = int(rng.choice([4, 6, 8]))
    X = C.make_X(rng, n, p, str(rng.choice(["gauss", "ar"])), rho=0.7, density=float(rng.choice([1.0, 0.6])))
    icpt = bool(rng.integers(0, 2)) and name not in ("LinearSVC", "CoxEstimator")
    tol = 1e-7
    wts = rng.uniform(0.4, 2.0, size=p)
    multi = name == "MultiTaskLasso"
    if name in ("SparseLogisticRegression", "LinearSVC"):
        y = C.make_target(rng, X, "pm1")
    elif name == "CoxEstimator":
        y = C.make_target(rng, X, "surv")
    elif multi:
        y = C.make_target(rng, X, "multi", n_tasks=2)
    else:
        y = C.make_target(rng, X, "real")
    # reference problem
    if name in ("Lasso", "ElasticNet", "WeightedLasso", "MCPRegression", "GroupLasso", "GeneralizedLinearEstimator"):
        g0 = X.T @ (y - (y.mean() if icpt else 0)) / n
        alpha = 0.2 * float(np.max(np.abs(g0)))
        refdf = R.RefDatafit("quadratic")
    elif multi:
        g0 = X.T @ (y - (y.mean(axis=0) if icpt else 0)) / n
        alpha = 0.2 * float(np.max(np.linalg.norm(g0, axis=1)))
        refdf = R.RefDatafit("multitask")
    elif name == "SparseLogisticRegression":
        alpha = 0.2 * float(np.max(np.abs(X.T @ y)) / (2 * n))
        refdf = R.RefDatafit("logistic")
    elif name == "CoxEstimator":
        refdf = R.RefDatafit("cox", efron=True)
        alpha = 0.2 * float(np.max(np.abs(refdf.grad_w(X, y, np.zeros(p)))))
    else:
        alpha = 1.0
        refdf = None
    groups = [np.arange(i, i + 2) for i in range(0, p, 2)] if name == "GroupLasso" else None

    def make():
        kw = dict(tol=tol, fit_intercept=icpt, max_iter=200)
        if name == "Lasso":
            return E.Lasso(alpha=alpha, max_epochs=5000, **kw), R.RefPenalty("l1", alpha=alpha)
        if name == "ElasticNet":
            return E.ElasticNet(alpha=alpha, l1_ratio=0.6, max_epochs=5000, **kw), R.RefPenalty("enet", alpha=alpha, l1_ratio=0.6)
        if name == "WeightedLasso":
            return E.WeightedLasso(alpha=alpha, weights=wts.copy(), max_epochs=5000, **kw), R.RefPenalty("wl1", alpha=alpha, weights=wts)
        if name == "MCPRegression":
            return E.MCPRegression(alpha=alpha, gamma=3.0, max_epochs=5000, **kw), R.RefPenalty("mcp", alpha=alpha, gamma=3.0)
        if name == "GroupLasso":
            return E.GroupLasso(groups=2, alpha=alpha, max_epochs=5000, tol=tol, fit_intercept=icpt, max_iter=500), \
                R.RefPenalty("group", alpha=alpha, weights=np.ones(len(groups)), groups=groups)
        if name == "MultiTaskLasso":
            return E.MultiTaskLasso(alpha=alpha, max_epochs=5000, **kw), R.RefPenalty("l21", alpha=alpha)
        if name == "SparseLogisticRegression":
            return E.SparseLogisticRegression(alpha=alpha, max_epochs=500, **kw), R.RefPenalty("l1", alpha=alpha)
        if name == "LinearSVC":
            return E.LinearSVC(C=1.0, tol=tol, max_iter=300, max_epochs=5000), R.RefPenalty("box", alpha=1.0)
        if name == "CoxEstimator":
            return E.CoxEstimator(alpha=alpha, l1_ratio=0.7, method="efron", tol=tol, max_iter=200), \
                R.RefPenalty("enet", alpha=alpha, l1_ratio=0.7)
        return E.GeneralizedLinearEstimator(D.Quadratic(), P.L1(alpha), AndersonCD(tol=tol, fit_intercept=icpt, max_epochs=5000)), \
            R.RefPenalty("l1", alpha=alpha)
    _, refpen = make()
    if name == "LinearSVC":
        prob = R.RefProblem((X * y[:, None]).T, y, R.RefDatafit("svc"), refpen, False)
    else:
        prob = R.RefProblem(X, y, refdf, refpen, icpt)
    outs = {}
    for kind in EST_CONTAINERS:
        if name in ("MultiTaskLasso",) and kind in ("csc", "csr", "csc_float32"):
            pass
        est, _ = make()
        Xc = container(X, kind)
        try:
            with warnings.catch_warnings():
                warnings.simplefilter("ignore")
                est.fit(Xc, y)
            if name == "LinearSVC":
                coef = np.ravel(est.dual_coef_)
            elif multi:
                coef = np.vstack([est.coef_.T, np.atleast_1d(est.intercept_)[None, :]]) if icpt else est.coef_.T
            else:
                coef = np.r_[np.ravel(est.coef_), np.ravel(np.atleast_1d(est.intercept_))[0]] if icpt else np.ravel(est.coef_)
            stop = getattr(est, "stop_crit_", getattr(est, "stopping_crit", None))
            outs[kind] = ("ok", np.asarray(coef, float), None if stop is None else float(stop))
        except Exception as e:
            outs[kind] = (classify_exc(e), type(e).__name__, str(e).replace("\n", " "))
    common = dict(estimator=name, fit_intercept=icpt)
    judge(emit, cid, "estimator|%s" % name, common, prob, tol, outs, rep == 0, f32=("float32", "csc_float32"))
