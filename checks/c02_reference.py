"""C02 — converged convex fits reach the reference optimum (drop-in equivalence).

Monitor: for convex families the same problem is solved by skglm (every applicable solver, and the estimator) and by
independent implementations (scikit-learn, celer, scipy LP / smooth reformulations).  For a skglm result that claims
convergence at tolerance tol the reference objective F must satisfy, against EVERY other feasible point w' we can
exhibit, F(w_sk) <= F(w') + tol * |w_sk - w'|_1 + rounding — a consequence of the claimed certificate, so a poor
reference can only weaken the test.  FISTA and PDCD_WS (whose stopping value is not a certificate) are given a
generous budget and must reach the same objective within the margin computed from their reference-measured
violation.  With a strongly convex objective (mu measured) the coefficients themselves must agree.
"""
import warnings
import numpy as np
from numpy.linalg import norm

from vlib import compose as C
from vlib import refmath as R
from vlib.common import rng_for, want, small
from vlib.runner import digest

PROPERTY = "C02"
LEVEL = "exploration"
TECHNIQUE = "runtime monitoring: differential oracle against independent implementations (sklearn, celer, scipy) and across skglm solvers, through tolerance-implied objective margins"
LEVEL_TEXT = ("Convex problems (Lasso, elastic net, positive variants, L1 logistic regression, hinge SVC, multi-task and "
              "group Lasso, quantile and square-root Lasso) are generated over regularisation strengths, mixing parameters, "
              "n<p and n>p; each is solved by every applicable skglm solver / estimator and by independent libraries; all "
              "pairs are compared through the reference objective with the margin a truthful convergence claim implies.")
LEVEL_NOTE = ("trusted: vlib/refmath.py objective (only values, no subdifferentials, decide here), sklearn 1.9 / celer 0.7 / "
              "scipy as independent witnesses; a witness that is itself inaccurate only weakens the test")
RULE = ("cases = (family, instance) -> set of results {implementation: coefficients}; non-trivial = at least one skglm "
        "result claims convergence and at least one independent witness exists; distinct = digest(case)")
SLACK = {"margin": "tol*|dw|_1*(1+1e-6) + 1e-11*(1+|F|)", "budgeted_solvers_cert_factor": 1.01,
         "unique_minimiser": "|dw|_2 <= (tau_sk + tau_ref) sqrt(p) / mu"}
ASSUMPTIONS = ["objective conventions of the witnesses mapped in this module (C = 1/(n alpha) for liblinear, alpha/n for QuantileRegressor)"]
FLOOR = {"quick": 100, "thorough": 1500}
REPS = {"quick": 12, "thorough": 150}

FAMILIES = ["lasso", "lasso_positive", "enet", "enet_positive", "logreg_l1", "svc", "multitask", "grouplasso", "quantile",
            "sqrtlasso", "weighted_lasso"]


def plan(tier, seed):
    # the primal-dual families are slow (large budgets): cut them into chunks so that all cores are used
    out = []
    for f in FAMILIES:
        chunk = 15 if f in ("quantile", "sqrtlasso") else REPS[tier]
        for r0 in range(0, REPS[tier], chunk):
            out.append(dict(name="%s@%d" % (f, r0) if r0 else f, family=f, rep0=r0, reps=min(chunk, REPS[tier] - r0)))
    return out


def run_shard(spec, emit):
    fam, seed = spec["family"], spec["seed"]
    for rep in range(spec.get("rep0", 0), spec.get("rep0", 0) + spec["reps"]):
        cid = "%s/r%d" % (fam, rep)
        if not want(spec, cid):
            continue
        rng = rng_for("C02", seed, fam, rep)
        try:
            one(emit, cid, fam, rng, rep == 0)
        except Exception:
            import traceback
            emit(dict(id=cid, cell=fam, status="inconclusive", obs=dict(tb=traceback.format_exc()[-1800:])))


def one(emit, cid, fam, rng, sample):
    import skglm.estimators as E
    import skglm.datafits as D
    import skglm.penalties as P
    import skglm.solvers as S
    from skglm.experimental.pdcd_ws import PDCD_WS
    from skglm.experimental.quantile_regression import Pinball
    from skglm.experimental.sqrt_lasso import SqrtLasso, SqrtQuadratic
    import sklearn.linear_model as SK
    import sklearn.svm as SVM
    cc = C.compiled
    shape = str(rng.choice(["n>p", "n<p"]))
    p = int(rng.integers(4, 14))
    n = p + int(rng.integers(5, 25)) if shape == "n>p" else max(4, p - int(rng.integers(1, 3)))
    if fam == "quantile" and int(cid.rsplit("/r", 1)[1]) % 4 == 3:
        # more features than the primal-dual solver's first working set (p0 = 100): it has to grow working sets
        p, n = int(rng.integers(110, 150)), int(rng.integers(40, 60))
    X = C.make_X(rng, n, p, str(rng.choice(["gauss", "ar", "shifted", "scaled", "centered"])), rho=float(rng.choice([0.5, 0.95])))
    frac = float(rng.choice([1e-3, 1e-2, 0.1, 0.5, 0.9]))
    tol = 1e-8
    icpt = bool(rng.integers(0, 2))
    res = {}      # name -> (coef (with intercept last when prob.fit_intercept), claimed tol | None, is_skglm)
    skw = dict(tol=tol, max_iter=500)
    with warnings.catch_warnings():
        warnings.simplefilter("ignore")
        if fam in ("lasso", "lasso_positive", "enet", "enet_positive", "weighted_lasso"):
            y = C.make_target(rng, X, "real")
            pos = fam.endswith("positive")
            r = float(rng.choice([0.1, 0.5, 0.9])) if fam.startswith("enet") else 1.0
            g0 = X.T @ (y - (y.mean() if icpt else 0)) / n
            wts = rng.uniform(0.3, 2.0, size=p) if fam == "weighted_lasso" else np.ones(p)
            alpha = frac * float(np.max(np.abs(g0) / wts)) / r
            refpen = R.RefPenalty("enet", alpha=alpha, l1_ratio=r, positive=pos) if r < 1 else \
                R.RefPenalty("wl1", alpha=alpha, weights=wts, positive=pos)
            prob = R.RefProblem(X, y, R.RefDatafit("quadratic"), refpen, icpt)
            mkpen = (lambda: P.L1_plus_L2(alpha, r, pos)) if r < 1 else (
                (lambda: P.WeightedL1(alpha, wts.copy(), pos)) if fam == "weighted_lasso" else (lambda: P.L1(alpha, pos)))
            full = lambda w, b: np.r_[w, b] if icpt else np.asarray(w)  # noqa
            # --- skglm
            if fam == "weighted_lasso":
                est = E.WeightedLasso(alpha=alpha, weights=wts.copy(), fit_intercept=icpt, max_epochs=10000, **skw).fit(X, y)
            elif r < 1:
                est = E.ElasticNet(alpha=alpha, l1_ratio=r, positive=pos, fit_intercept=icpt, max_epochs=10000, **skw).fit(X, y)
            else:
                est = E.Lasso(alpha=alpha, positive=pos, fit_intercept=icpt, max_epochs=10000, **skw).fit(X, y)
            res["skglm.estimator"] = (full(est.coef_, est.intercept_), tol if est.stop_crit_ <= tol else None, True)
            # the same estimator used the way a path / grid search uses it: warm-started from the fit at another alpha
            est.set_params(warm_start=True, alpha=alpha * 3.0)
            est.fit(X, y)
            est.set_params(alpha=alpha)
            est.fit(X, y)
            res["skglm.estimator(warm refit)"] = (full(est.coef_, est.intercept_), tol if est.stop_crit_ <= tol else None, True)
            w, _, st = S.ProxNewton(tol=tol, fit_intercept=icpt, max_iter=500).solve(X, y, cc(D.Quadratic()), cc(mkpen()))
            res["skglm.ProxNewton"] = (w, tol if st <= tol else None, True)
            if not icpt:
                w, _, st = S.GramCD(tol=tol, max_iter=20000, fit_intercept=False).solve(X, y, None, cc(mkpen()))
                res["skglm.GramCD"] = (w, tol if st <= tol else None, True)
                w, _, st = S.FISTA(tol=tol, max_iter=50000).solve(X, y, cc(D.Quadratic()), cc(mkpen()))
                res["skglm.FISTA"] = (w, "budget", True)
            # --- witnesses
            if fam != "weighted_lasso":
                sk = (SK.ElasticNet(alpha=alpha, l1_ratio=r, positive=pos, fit_intercept=icpt, tol=1e-13, max_iter=1000000)
                      if r < 1 else SK.Lasso(alpha=alpha, positive=pos, fit_intercept=icpt, tol=1e-13, max_iter=1000000)).fit(X, y)
                res["sklearn"] = (full(sk.coef_, sk.intercept_), None, False)
            if r == 1 and not pos:
                try:
                    import celer
                    ce = celer.Lasso(alpha=alpha, weights=wts if fam == "weighted_lasso" else None, fit_intercept=icpt,
                                     tol=1e-12, max_iter=500, max_epochs=100000).fit(X, y)
                    res["celer"] = (full(ce.coef_, ce.intercept_), None, False)
                except Exception:
                    pass
        elif fam == "logreg_l1":
            y = C.make_target(rng, X, "pm1")
            icpt = False
            g0 = X.T @ (-y / 2) / n
            alpha = max(frac, 0.01) * float(np.max(np.abs(g0)))
            prob = R.RefProblem(X, y, R.RefDatafit("logistic"), R.RefPenalty("l1", alpha=alpha), False)
            est = E.SparseLogisticRegression(alpha=alpha, fit_intercept=False, tol=tol, max_iter=200, max_epochs=1000).fit(X, y)
            res["skglm.estimator"] = (np.ravel(est.coef_), tol if est.stop_crit_ <= tol else None, True)
            est.set_params(warm_start=True, alpha=alpha * 3.0)
            est.fit(X, y)
            est.set_params(alpha=alpha)
            est.fit(X, y)
            res["skglm.estimator(warm refit)"] = (np.ravel(est.coef_), tol if est.stop_crit_ <= tol else None, True)
            w, _, st = S.AndersonCD(tol=tol, fit_intercept=False, max_iter=300, max_epochs=10000).solve(X, y, cc(D.Logistic()), cc(P.L1(alpha)))
            res["skglm.AndersonCD"] = (w, tol if st <= tol else None, True)
            w, _, st = S.FISTA(tol=tol, max_iter=50000).solve(X, y, cc(D.Logistic()), cc(P.L1(alpha)))
            res["skglm.FISTA"] = (w, "budget", True)
            sk = SK.LogisticRegression(penalty="l1", C=1 / (n * alpha), solver="liblinear", fit_intercept=False, tol=1e-12,
                                       max_iter=100000).fit(X, y)
            res["sklearn.liblinear"] = (np.ravel(sk.coef_), None, False)
            try:
                import celer
                ce = celer.LogisticRegression(C=1 / (n * alpha), fit_intercept=False, tol=1e-12, max_iter=500,
                                              max_epochs=100000).fit(X, y)
                res["celer"] = (np.ravel(ce.coef_), None, False)
            except Exception:
                pass
        elif fam == "svc":
            y = C.make_target(rng, X, "pm1")
            Cc = float(rng.choice([0.05, 1.0, 10.0]))
            icpt = False
            est = E.LinearSVC(C=Cc, tol=tol, max_iter=500, max_epochs=20000).fit(X, y)

            class Primal:   # primal hinge objective as the reference
                fit_intercept = False

                @staticmethod
                def objective(b):
                    return float(Cc * np.sum(np.maximum(0, 1 - y * (X @ b))) + 0.5 * b @ b)
            prob = Primal
            beta = np.ravel(est.coef_)
            dual = np.ravel(est.dual_coef_)
            claimed = est.stop_crit_ <= tol
            sk = SVM.LinearSVC(loss="hinge", C=Cc, fit_intercept=False, dual=True, tol=1e-12, max_iter=5000000).fit(X, y)
            bsk = np.ravel(sk.coef_)
            # primal optimality of skglm's primal image through its own duality gap (dual objective from its dual point)
            gap = prob.objective(beta) - (dual.sum() - 0.5 * beta @ beta)
            Fsk, Fref = prob.objective(beta), prob.objective(bsk)
            rec = dict(id=cid, cell="svc", digest=digest(cid), nontrivial=bool(claimed),
                       count=dict(problems=1, results=2, skglm_claims=int(claimed)), hist={"family": fam})
            # margin: a dual point with violation <= tol has gap <= tol * (|dual|_1 + n C)
            margin = 10 * tol * (np.abs(dual).sum() + n * Cc + 1)
            viols = []
            if claimed and not (Fsk <= Fref + margin + 1e-9 * (1 + abs(Fref))):
                viols.append(dict(mechanism="objective-above-reference", family=fam, implementation="skglm.LinearSVC",
                                  witness="sklearn.LinearSVC(hinge)", gap=float(Fsk - Fref),
                                  detail="primal objective skglm %.10g vs sklearn %.10g (margin %.3g)" % (Fsk, Fref, margin)))
            if claimed and not (gap <= margin):
                viols.append(dict(mechanism="duality-gap-too-large", family=fam, implementation="skglm.LinearSVC", gap=float(gap),
                                  detail="primal-dual gap %.3g > %.3g" % (gap, margin)))
            if viols:
                rec.update(status="violated", viol=viols[0], viols=viols, obs=dict(C=Cc, n=n, p=p))
            else:
                rec["status"] = "held"
            if sample:
                rec["sample"] = dict(family=fam, C=Cc, primal_skglm=Fsk, primal_sklearn=Fref, duality_gap=float(gap))
            emit(rec)
            return
        elif fam == "multitask":
            T = int(rng.integers(2, 5))
            y = C.make_target(rng, X, "multi", n_tasks=T)
            g0 = X.T @ (y - (y.mean(axis=0) if icpt else 0)) / n
            alpha = frac * float(np.max(norm(g0, axis=1)))
            prob = R.RefProblem(X, y, R.RefDatafit("multitask"), R.RefPenalty("l21", alpha=alpha), icpt)
            full = lambda Wc, b: np.vstack([Wc.T, np.atleast_1d(b)[None, :]]) if icpt else Wc.T  # noqa
            est = E.MultiTaskLasso(alpha=alpha, fit_intercept=icpt, tol=tol, max_iter=500, max_epochs=20000).fit(X, y)
            res["skglm.estimator"] = (full(est.coef_, est.intercept_), tol if est.stopping_crit <= tol else None, True)
            sk = SK.MultiTaskLasso(alpha=alpha, fit_intercept=icpt, tol=1e-13, max_iter=1000000).fit(X, y)
            res["sklearn"] = (full(sk.coef_, sk.intercept_), None, False)
        elif fam == "grouplasso":
            y = C.make_target(rng, X, "real")
            groups = C.make_groups(rng, p)
            gw = rng.uniform(0.4, 2.0, size=len(groups))
            g0 = X.T @ (y - (y.mean() if icpt else 0)) / n
            alpha = frac * max(norm(g0[G]) / gw[i] for i, G in enumerate(groups))
            prob = R.RefProblem(X, y, R.RefDatafit("quadratic"), R.RefPenalty("group", alpha=alpha, weights=gw, groups=groups), icpt)
            full = lambda w, b: np.r_[w, b] if icpt else np.asarray(w)  # noqa
            est = E.GroupLasso(groups=[int(len(G)) for G in groups], alpha=alpha, weights=gw.copy(), fit_intercept=icpt, tol=tol,
                               max_iter=1000, max_epochs=20000).fit(X, y)
            res["skglm.estimator"] = (full(est.coef_, est.intercept_), tol if est.stop_crit_ <= tol else None, True)
            try:
                import celer
                ce = celer.GroupLasso(groups=[int(len(G)) for G in groups], alpha=alpha, weights=gw.copy(), fit_intercept=icpt,
                                      tol=1e-12, max_iter=500, max_epochs=100000).fit(X, y)
                res["celer"] = (full(ce.coef_, ce.intercept_), None, False)
            except Exception:
                pass
            # singleton-free cross-check inside skglm: GroupBCD fixpoint strategy
            ptr, ind = C.groups_to_ptr(groups)
            dfg = cc(D.QuadraticGroup(ptr, ind))
            w, _, st = S.GroupBCD(tol=tol, fit_intercept=icpt, ws_strategy="fixpoint", max_iter=1000, max_epochs=20000).solve(
                X, y, dfg, cc(P.WeightedGroupL2(alpha, gw.copy(), ptr, ind)))
            res["skglm.GroupBCD(fixpoint)"] = (w, "budget", True)
        elif fam == "quantile":
            y = C.make_target(rng, X, "real", noise=1.0)
            q = float(rng.choice([0.3, 0.5, 0.8]))
            icpt = False
            amax = float(np.max(np.abs(X.T @ np.where(y > 0, q, q - 1))))
            alpha = max(frac, 0.01) * amax
            prob = R.RefProblem(X, y, R.RefDatafit("pinball", q=q), R.RefPenalty("l1", alpha=alpha), False)
            w, _, st = PDCD_WS(tol=1e-9, max_iter=100, max_epochs=5000).solve(X, y, cc(Pinball(q)), cc(P.L1(alpha)))
            # its stopping value is a primal-dual fixed-point residual: a run that did not reach it claims nothing
            res["skglm.PDCD_WS"] = (w, "budget-lp" if st <= 1e-9 else None, True)
            sk = SK.QuantileRegressor(quantile=q, alpha=alpha / n, fit_intercept=False, solver="highs").fit(X, y)
            res["sklearn.highs"] = (np.ravel(sk.coef_), None, False)
        else:   # sqrtlasso
            # (a third of the cases nearly noiseless: the optimal residual may then fall below 1 % of |y|, the regime
            #  in which the datafit documents that it refuses to go on and the estimator says so in a warning)
            y = C.make_target(rng, X, "real", noise=float(rng.choice([1.0, 1.0, 0.003])))
            icpt = False
            if n <= p:
                emit(dict(id=cid, cell=fam, status="skipped", nontrivial=False, hist={"skipped": "n<=p: zero residual regime"}))
                return
            amax = float(np.max(np.abs(X.T @ y)) / norm(y))
            alpha = max(frac, 0.05) * amax
            prob = R.RefProblem(X, y, R.RefDatafit("sqrtquad"), R.RefPenalty("l1", alpha=alpha), False)
            with warnings.catch_warnings(record=True) as wl:
                warnings.simplefilter("always")
                est = SqrtLasso(alpha=alpha, tol=tol, max_iter=500).fit(X, y)
            announced = any("Small residuals prevented" in str(w_.message) for w_ in wl)
            # an announced stop claims nothing; a silent return is a claim like any other
            res["skglm.SqrtLasso"] = (np.ravel(est.coef_), None if announced else "budget", not announced)
            w, _, st = PDCD_WS(tol=1e-9, max_iter=100, max_epochs=5000).solve(X, y, cc(SqrtQuadratic()), cc(P.L1(alpha)))
            res["skglm.PDCD_WS"] = (w, "budget" if st <= 1e-9 else None, True)
            from scipy.optimize import minimize

            def f(uv):
                w_ = uv[:p] - uv[p:]
                r_ = y - X @ w_
                nr = norm(r_)
                g = -X.T @ r_ / nr
                return nr + alpha * uv.sum(), np.r_[g + alpha, -g + alpha]
            o = minimize(f, np.zeros(2 * p), jac=True, method="L-BFGS-B", bounds=[(0, None)] * (2 * p),
                         options=dict(maxiter=20000, ftol=1e-15, gtol=1e-12))
            res["scipy.lbfgsb"] = (o.x[:p] - o.x[p:], None, False)
    # ------------------------------------------------------------------------------------------- compare all pairs
    F = {k: prob.objective(v[0]) for k, v in res.items()}
    viols = []
    n_claims = 0
    finite = {k: v for k, v in F.items() if np.all(np.isfinite(res[k][0])) and np.isfinite(v)}
    Fstar = min(finite.values()) if finite else np.nan
    kstar = min(finite, key=finite.get) if finite else None
    cn = norm(X, axis=0)
    scale_ratio = float(cn.max() / max(cn[cn > 0].min(), 1e-300)) if np.any(cn > 0) else 1.0

    def far(k, wk):
        """"every applicable solver reaches that same optimum", restated as bounded progress and measured on the
        objective (a violation measured in one metric says little about a solver that stops in another one): the
        budgets above are 10-100x what these small problems need; a run that ends more than 1e-5 (relative) above the
        best objective any implementation found has not reached the optimum.  For FISTA run to the end of its budget
        the rule is Beck & Teboulle's bound F(w_k) - F* <= 2 L |w_0 - w*|^2 / (k+1)^2 instead."""
        gap = float(F[k] - Fstar)
        allowed = 1e-5 * (1 + abs(Fstar))
        if k == "skglm.GramCD":
            # plain (greedy / cyclic, unaccelerated) coordinate descent has no rate on a singular or nearly singular Gram
            # matrix: 20000 epochs are "generous" only when the quadratic is well conditioned
            ev = np.linalg.eigvalsh(X.T @ X / n)
            if ev[0] < 1e-3 * ev[-1]:
                return None
        if k == "skglm.FISTA" and kstar is not None:
            Lg = float(norm(X, ord=2) ** 2 / n) / (4.0 if fam == "logreg_l1" else 1.0)
            allowed = max(allowed, 2 * Lg * float(norm(np.asarray(res[kstar][0])[:p]) ** 2) / (50000 + 1) ** 2 * 1.01)
        if gap > allowed:
            return dict(mechanism="does-not-reach-optimum-within-budget", family=fam, implementation=k, gap=gap,
                        allowed=allowed, scale_ratio=scale_ratio, badly_scaled=bool(scale_ratio >= 30),
                        detail="%s: objective %.12g is %.3g above the best found (%s: %.12g) after the generous budget; "
                               "column-norm ratio of X %.3g" % (k, F[k], gap, kstar, Fstar, scale_ratio))
        return None

    for k, (wk, claim, is_sk) in res.items():
        if is_sk and claim is None and np.all(np.isfinite(wk)) and prob.__class__ is R.RefProblem and \
                prob.df.kind != "pinball":
            v_ = far(k, wk)
            if v_:
                viols.append(v_)
        if not is_sk or claim is None:
            continue
        if not np.all(np.isfinite(wk)):
            viols.append(dict(mechanism="non-finite-result", family=fam, implementation=k, detail=k))
            continue
        if claim in ("budget", "budget-lp"):
            # stopping value is not a certificate: the margin comes from the reference-measured violation
            if claim == "budget":
                v_ = far(k, wk)
                if v_:
                    viols.append(v_)
                    continue
                cert = prob.cert_subdiff(wk)[0]
                t_eff = cert * SLACK["budgeted_solvers_cert_factor"]
            else:
                t_eff = None
        else:
            t_eff = claim
        n_claims += 1
        for k2, (w2, _, _) in res.items():
            if k2 == k or not np.all(np.isfinite(w2)):
                continue
            dw = float(np.abs(np.asarray(wk) - np.asarray(w2)).sum())
            if t_eff is None:      # LP case: compare objectives relatively (PDCD_WS fixed-point tolerance 1e-9)
                margin = 1e-5 * (1 + abs(F[k2]))
            else:
                margin = t_eff * dw * (1 + 1e-6) + 1e-11 * (1 + abs(F[k2]))
            if not (F[k] <= F[k2] + margin):
                viols.append(dict(mechanism="objective-above-reference", family=fam, implementation=k, witness=k2,
                                  gap=float(F[k] - F[k2]), fit_intercept=icpt,
                                  detail="F[%s]=%.12g > F[%s]=%.12g + margin %.3g (|dw|_1=%.3g)" % (k, F[k], k2, F[k2], margin, dw)))
    # unique minimiser => same coefficients
    if fam in ("lasso", "enet", "weighted_lasso", "lasso_positive", "enet_positive") and "sklearn" in res and n > p:
        mu = float(np.linalg.eigvalsh(X.T @ X / n)[0])
        if mu > 1e-4 and not icpt:
            tau_ref = prob.cert_subdiff(res["sklearn"][0])[0]
            for k, (wk, claim, is_sk) in res.items():
                if is_sk and claim == tol:
                    bound = (tol + tau_ref) * np.sqrt(p) / mu * 1.01 + 1e-12
                    d2 = float(norm(np.asarray(wk) - res["sklearn"][0]))
                    if d2 > bound:
                        viols.append(dict(mechanism="coefficients-differ-although-minimiser-unique", family=fam, implementation=k,
                                          detail="|w - w_sklearn|_2 = %.3g > %.3g (mu=%.3g)" % (d2, bound, mu)))
    rec = dict(id=cid, cell=fam, digest=digest(cid), nontrivial=bool(n_claims >= 1 and any(not v[2] for v in res.values())),
               count=dict(problems=1, results=len(res), skglm_claims=n_claims), hist={"family": fam, "shape": shape})
    if viols:
        rec.update(status="violated", viol=viols[0], viols=viols,
                   obs=dict(n=n, p=p, frac=frac, objectives=F, fit_intercept=icpt, all=[v["detail"] for v in viols[:5]]))
    else:
        rec["status"] = "held"
    if sample:
        rec["sample"] = dict(family=fam, n=n, p=p, alpha_fraction=frac, objectives=F)
    emit(rec)
