"""C16 — critical regularisation strength: null solution exactly from alpha_max.

Monitors:
  (f) function level: penalty.alpha_max(gradient at the null model) and utils.data._alpha_max_group_lasso equal the
      reference critical value inf{alpha : 0 in dF(0)} (zero weights excluded, l1_ratio honoured, no division by 0);
  (s) solver/estimator level: with alpha = alpha_crit*(1+eps) (alpha_crit from the penalty's own alpha_max on the
      reference gradient at the null model = optimal intercept + optimal unpenalised coefficients) the fit returns
      exactly zero penalised coefficients and an optimal unpenalised part; with alpha_crit*(1-eps) a converged fit
      has a non-zero penalised coefficient;
  (p) SqrtLasso.path(alphas=None) starts at its critical value: first column exactly zero, a later column not.
"""
import warnings
import numpy as np
from numpy.linalg import norm

from vlib import compose as C
from vlib import refmath as R
from vlib.common import rng_for, want, small
from vlib.runner import digest

PROPERTY = "C16"
LEVEL = "exploration"
TECHNIQUE = "runtime monitoring: reference critical-value oracle + exact-zero / optimal-null-model post-conditions around alpha_max"
LEVEL_TEXT = ("For every penalty that defines a critical strength, alpha_max is compared with the reference critical value "
              "and solvers/estimators are run just above and just below it on non-centred data, with and without "
              "intercept, with zero weights, groups and tasks, dense and CSC: above => exactly zero penalised "
              "coefficients and an optimal null model; below => a non-zero coefficient. Generators include l1_ratio down to "
              "1e-7, alpha far above alpha_max, centred designs and task means all on one side.")
LEVEL_NOTE = ("trusted: vlib/refmath.py gradients, numpy lstsq / bisection for the reference null model; positive=True "
              "variants are not judged (alpha_max is then only an upper bound of the critical value); MCP variants are judged "
              "above alpha_max only when the cold start is the null model (no intercept, no unpenalised feature)")
RULE = ("cases = (component, datafit, penalty, intercept, storage, weights class, eps, side); non-trivial = the run "
        "converged; distinct = digest(case)")
SLACK = {"alpha_max_rel": 1e-10, "null_model_grad": "tol"}
ASSUMPTIONS = ["null model of quadratic losses by least squares on the unpenalised columns (+ intercept)"]
FLOOR = {"quick": 150, "thorough": 2000}
REPS = {"quick": 10, "thorough": 120}

TARGETS = ["AndersonCD/Quadratic/L1", "AndersonCD/Quadratic/L1_plus_L2", "AndersonCD/Quadratic/WeightedL1",
           "AndersonCD/Quadratic/MCPenalty", "AndersonCD/Quadratic/WeightedMCPenalty", "AndersonCD/Logistic/L1",
           "ProxNewton/Logistic/L1", "ProxNewton/Poisson/L1", "GroupBCD/QuadraticGroup/WeightedGroupL2",
           "MultiTaskBCD/QuadraticMultiTask/L2_1", "est/Lasso", "est/ElasticNet", "est/WeightedLasso",
           "est/MCPRegression", "est/GroupLasso", "est/MultiTaskLasso", "est/SparseLogisticRegression", "est/SqrtLasso",
           "est/CoxEstimator", "func/alpha_max"]


def plan(tier, seed):
    return [dict(name=t, target=t, reps=REPS[tier]) for t in TARGETS]


def run_shard(spec, emit):
    t, seed = spec["target"], spec["seed"]
    for rep in range(spec["reps"]):
        cid = "%s/r%d" % (t, rep)
        if not want(spec, cid):
            continue
        rng = rng_for("C16", seed, t, rep)
        try:
            if t == "func/alpha_max":
                func_case(emit, cid, rng, rep == 0)
            else:
                solve_case(emit, cid, t, rng, rep == 0)
        except Exception:
            import traceback
            emit(dict(id=cid, cell=t, status="inconclusive", obs=dict(tb=traceback.format_exc()[-1800:])))


# ---------------------------------------------------------------------------------------------------------
def func_case(emit, cid, rng, sample):
    import skglm.penalties as P
    from skglm.utils.data import _alpha_max_group_lasso
    p = int(rng.integers(2, 12))
    g = rng.standard_normal(p) * float(rng.choice([0.01, 1, 100]))
    wts = rng.uniform(0.2, 3, size=p)
    if rng.random() < 0.6:
        wts[rng.choice(p, max(1, p // 3), replace=False)] = 0.0
        if not np.any(wts > 0):
            wts[0] = 1.0
    r = float(rng.choice([0.05, 0.5, 0.9, 1.0, 1e-4, 1e-7]))
    gam = float(rng.choice([1.5, 3.0, 20.0]))
    nz = wts > 0
    cases = [
        ("L1", P.L1(1.0), float(np.max(np.abs(g)))),
        ("L1_plus_L2", P.L1_plus_L2(1.0, r), float(np.max(np.abs(g)) / r)),
        ("WeightedL1", P.WeightedL1(1.0, wts.copy()), float(np.max(np.abs(g[nz]) / wts[nz]))),
        ("MCPenalty", P.MCPenalty(1.0, gam), float(np.max(np.abs(g)))),
        ("WeightedMCPenalty", P.WeightedMCPenalty(1.0, gam, wts.copy()), float(np.max(np.abs(g[nz]) / wts[nz]))),
    ]
    for name, pen, ref in cases:
        base = dict(id="%s/%s" % (cid, name), cell="alpha_max|%s" % name, digest=digest(cid, name), nontrivial=True)
        try:
            with np.errstate(all="ignore"):
                got = float(C.compiled(pen).alpha_max(g))
                got_py = float(pen.alpha_max(g))
        except Exception as e:
            emit(dict(base, status="violated", viol=dict(mechanism="alpha_max-raises", penalty=name, exc=type(e).__name__,
                                                         detail=repr(e)[:200])))
            continue
        ok = R.close(got, ref, rel=SLACK["alpha_max_rel"]) and R.close(got_py, ref, rel=SLACK["alpha_max_rel"])
        rec = dict(base)
        if ok:
            rec["status"] = "held"
        else:
            rec.update(status="violated",
                       viol=dict(mechanism="alpha_max-differs-from-critical-value", penalty=name, l1_ratio=r,
                                 zero_weights=bool(np.any(wts == 0)), detail="alpha_max=%r reference critical value=%r" % (got, ref)),
                       obs=dict(grad=g.tolist(), weights=wts.tolist(), l1_ratio=r, got=got, ref=ref))
        if sample:
            rec["sample"] = dict(penalty=name, alpha_max=got, reference=ref, l1_ratio=r)
        emit(rec)
    # group lasso helper
    n = int(rng.integers(6, 20))
    X = C.make_X(rng, n, p, "gauss")
    y = rng.standard_normal(n) + 2.0
    groups = C.make_groups(rng, p, style=str(rng.choice(["contig", "perm", "trap"])))
    gw = rng.uniform(0.3, 2, size=len(groups))
    zero_w = rng.random() < 0.5 and len(groups) > 1
    if zero_w:
        gw[int(rng.integers(0, len(groups)))] = 0.0
    ptr, ind = C.groups_to_ptr(groups)
    ref = max(norm(X[:, G].T @ y) / (n * gw[i]) for i, G in enumerate(groups) if gw[i] > 0)
    base = dict(id="%s/group" % cid, cell="alpha_max|_alpha_max_group_lasso", digest=digest(cid, "group"), nontrivial=True)
    try:
        with np.errstate(all="ignore"), warnings.catch_warnings():
            warnings.simplefilter("ignore")
            got = float(_alpha_max_group_lasso(X, y, ind, ptr, gw))
        ok = R.close(got, ref, rel=1e-10)
        rec = dict(base, status="held" if ok else "violated")
        if not ok:
            rec["viol"] = dict(mechanism="alpha_max-differs-from-critical-value", penalty="WeightedGroupL2",
                               zero_weights=bool(zero_w), detail="_alpha_max_group_lasso=%r reference=%r" % (got, ref))
            rec["obs"] = dict(weights=gw.tolist(), got=got, ref=ref)
    except Exception as e:
        rec = dict(base, status="violated", viol=dict(mechanism="alpha_max-raises", penalty="WeightedGroupL2",
                                                      zero_weights=bool(zero_w), exc=type(e).__name__, detail=repr(e)[:200]))
    emit(rec)


# ---------------------------------------------------------------------------------------------------------
def null_model(refdf, X, y, unpen_cols, icpt):
    """(w0 restricted to unpen_cols, b0): reference minimiser of the loss over unpenalised coordinates."""
    n, p = X.shape
    w = np.zeros(p if refdf.kind != "multitask" else (p, y.shape[1]))
    b = 0.0 if refdf.kind != "multitask" else np.zeros(y.shape[1])
    cols = list(unpen_cols)
    if refdf.kind in ("quadratic", "multitask"):
        A = X[:, cols]
        if icpt:
            A = np.column_stack([A, np.ones(n)])
        if A.shape[1]:
            sol = np.linalg.lstsq(A, y, rcond=None)[0]
            if icpt:
                w[cols], b = sol[:-1], sol[-1]
            else:
                w[cols] = sol
        return w, b
    if not cols:
        return w, (C.null_intercept(refdf, X, y) if icpt else 0.0)
    from scipy.optimize import minimize
    k = len(cols)

    def f(v):
        ww = np.zeros(p)
        ww[cols] = v[:k]
        bb = v[k] if icpt else 0.0
        z = X @ ww + bb
        rg = refdf.rawgrad(y, z)
        gr = np.r_[X[:, cols].T @ rg, rg.sum()] if icpt else X[:, cols].T @ rg
        return refdf.value(y, z), gr
    res = minimize(f, np.zeros(k + int(icpt)), jac=True, method="BFGS", options=dict(gtol=1e-13, maxiter=2000))
    w[cols] = res.x[:k]
    return w, (res.x[k] if icpt else 0.0)


def solve_case(emit, cid, target, rng, sample):
    import skglm.estimators as E
    import skglm.datafits as D
    import skglm.penalties as P
    import skglm.solvers as S
    from skglm.experimental.sqrt_lasso import SqrtLasso
    kind, a, b_ = (target.split("/") + [None])[:3]
    n, p = int(rng.integers(12, 40)), int(rng.integers(3, 14))
    xk = str(rng.choice(["gauss", "ar", "shifted", "centered"]))
    X = C.make_X(rng, n, p, xk, rho=0.8)
    if xk != "centered":
        X = X + rng.uniform(-2, 2, size=p)        # non-centred features (the centred kind: the usual preprocessing)
    sparse_in = bool(rng.integers(0, 2))
    icpt = bool(rng.integers(0, 2))
    tol = 1e-10
    eps_above = float(rng.choice([1e-6, 1e-4, 1e-2, 4.0]))       # "at or above": also far above
    eps_below = float(rng.choice([1e-3, 1e-2, 1e-1]))
    groups = C.make_groups(rng, p, style=str(rng.choice(["contig", "perm", "trap"])))
    wts = rng.uniform(0.3, 2.5, size=p)
    zero_w = rng.random() < 0.5 and p > 2
    if zero_w:
        wts[rng.choice(p, max(1, p // 4), replace=False)] = 0.0
    name = b_ if kind != "est" else a
    dfname = a if kind != "est" else None
    # ---- problem family
    multi = name in ("L2_1", "MultiTaskLasso")
    classif = (dfname in ("Logistic",)) or name == "SparseLogisticRegression"
    count = dfname == "Poisson"
    if multi:
        y = C.make_target(rng, X, "multi", n_tasks=int(rng.integers(1, 4))) + rng.uniform(-3, 3)
        if rng.random() < 0.35:
            y = y - y.mean(axis=0) + rng.uniform(0.5, 8.0, size=y.shape[1])      # every task mean on the same side
            y = np.asfortranarray(y)
        refdf = R.RefDatafit("multitask")
    elif classif:
        y = C.make_target(rng, X, "pm1")
        refdf = R.RefDatafit("logistic")
    elif count:
        y = C.make_target(rng, X, "count")
        refdf = R.RefDatafit("poisson")
    elif name == "SqrtLasso":
        y = C.make_target(rng, X, "real", noise=1.0)
        refdf = R.RefDatafit("sqrtquad")
        icpt = False
    elif name == "CoxEstimator":
        cox_method = str(rng.choice(["efron", "breslow"]))
        y = C.make_target(rng, X, "surv", ties=[False, True, "nonadjacent"][int(rng.integers(0, 3))])
        refdf = R.RefDatafit("cox", efron=(cox_method == "efron"))
        icpt = False
        sparse_in = False
    else:
        y = C.make_target(rng, X, "real") + rng.uniform(-5, 5)      # non-centred target
        refdf = R.RefDatafit("quadratic")
    weighted = name in ("WeightedL1", "WeightedMCPenalty", "WeightedLasso")
    unpen = np.where(wts == 0)[0] if weighted else np.array([], int)
    w0, b0 = null_model(refdf, X, y, unpen, icpt)
    if name == "SqrtLasso":
        g0 = X.T @ (-(y) / norm(y))
    else:
        g0 = refdf.grad_w(X, y, w0, b0)
    p0 = int(rng.choice([1, 2, 10]))        # also working sets smaller than the number of unpenalised features
    l1r = float(rng.choice([0.2, 0.6, 1.0, 1e-4]))
    gam = float(rng.choice([2.0, 5.0]))
    gw = rng.uniform(0.4, 2.0, size=len(groups))
    # ---- reference critical value and the repository's own alpha_max on the reference gradient
    if name in ("L1", "Lasso", "SparseLogisticRegression", "MCPenalty", "SqrtLasso"):
        crit_ref = float(np.max(np.abs(g0)))
        pen_for_amax = P.L1(1.0) if name != "MCPenalty" else P.MCPenalty(1.0, gam)
    elif name in ("L1_plus_L2", "ElasticNet", "CoxEstimator"):
        if name == "CoxEstimator" and l1r < 1e-3:
            l1r = 0.5
        crit_ref = float(np.max(np.abs(g0)) / l1r)
        pen_for_amax = P.L1_plus_L2(1.0, l1r)
    elif name in ("WeightedL1", "WeightedLasso"):
        nz = wts > 0
        crit_ref = float(np.max(np.abs(g0[nz]) / wts[nz]))
        pen_for_amax = P.WeightedL1(1.0, wts.copy())
    elif name in ("WeightedMCPenalty", "MCPRegression"):
        if name == "MCPRegression":
            wts = np.ones(p)
        nz = wts > 0
        crit_ref = float(np.max(np.abs(g0[nz]) / wts[nz]))
        pen_for_amax = P.WeightedMCPenalty(1.0, gam, wts.copy())
    elif name in ("WeightedGroupL2", "GroupLasso"):
        crit_ref = float(max(norm(g0[G]) / gw[i] for i, G in enumerate(groups)))
        pen_for_amax = None
    else:  # multitask
        crit_ref = float(np.max(norm(g0, axis=1)))
        pen_for_amax = None
    crit = crit_ref if pen_for_amax is None else float(pen_for_amax.alpha_max(g0))
    Xin = C.to_storage(X, "csc") if (sparse_in and name not in ("SqrtLasso", "MultiTaskLasso")) else X
    common = dict(target=target, fit_intercept=icpt, storage="csc" if Xin is not X else "dense",
                  zero_weights=bool(zero_w and weighted), l1_ratio=l1r if name in ("L1_plus_L2", "ElasticNet") else None)
    if not icpt and len(unpen) == 0 and rng.random() < 0.5:
        eps_above = 0.0        # "at" the critical value: exact as soon as no unpenalised part has to converge
    base = dict(id=cid, cell="%s|icpt=%d|%s" % (target, int(icpt), common["storage"]), digest=digest(cid, small(X, 3)))
    viols = []
    n_conv = 0

    def fit(alpha):
        """returns (penalised coef array, full coef for the reference problem, stop, refproblem)"""
        kw = dict(tol=tol, max_iter=200)
        with warnings.catch_warnings():
            warnings.simplefilter("ignore")
            if kind == "est":
                if name == "Lasso":
                    est, rp = E.Lasso(alpha=alpha, fit_intercept=icpt, max_epochs=5000, p0=p0, **kw), R.RefPenalty("l1", alpha=alpha)
                elif name == "ElasticNet":
                    est = E.ElasticNet(alpha=alpha, l1_ratio=l1r, fit_intercept=icpt, max_epochs=5000, p0=p0, **kw)
                    rp = R.RefPenalty("enet", alpha=alpha, l1_ratio=l1r)
                elif name == "WeightedLasso":
                    est = E.WeightedLasso(alpha=alpha, weights=wts.copy(), fit_intercept=icpt, max_epochs=5000, p0=p0, **kw)
                    rp = R.RefPenalty("wl1", alpha=alpha, weights=wts)
                elif name == "MCPRegression":
                    est = E.MCPRegression(alpha=alpha, gamma=gam, fit_intercept=icpt, max_epochs=5000, p0=p0, **kw)
                    rp = R.RefPenalty("mcp", alpha=alpha, gamma=gam)
                elif name == "GroupLasso":
                    perm_groups = [[int(i) for i in G] for G in groups]
                    est = E.GroupLasso(groups=perm_groups, alpha=alpha, weights=gw.copy(), fit_intercept=icpt,
                                       max_epochs=5000, tol=tol, max_iter=500)
                    rp = R.RefPenalty("group", alpha=alpha, weights=gw, groups=groups)
                elif name == "MultiTaskLasso":
                    est = E.MultiTaskLasso(alpha=alpha, fit_intercept=icpt, max_epochs=5000, **kw)
                    rp = R.RefPenalty("l21", alpha=alpha)
                elif name == "SparseLogisticRegression":
                    est = E.SparseLogisticRegression(alpha=alpha, fit_intercept=icpt, max_epochs=500, **kw)
                    rp = R.RefPenalty("l1", alpha=alpha)
                elif name == "CoxEstimator":
                    est = E.CoxEstimator(alpha=alpha, l1_ratio=l1r, method=cox_method, tol=tol, max_iter=200)
                    rp = R.RefPenalty("enet", alpha=alpha, l1_ratio=l1r)
                else:
                    est = SqrtLasso(alpha=alpha, tol=tol, max_iter=200)
                    rp = R.RefPenalty("l1", alpha=alpha)
                est.fit(Xin, y)
                if multi:
                    coef = est.coef_.T
                    full = np.vstack([coef, np.atleast_1d(est.intercept_)[None, :]]) if icpt else coef
                    stop = est.stopping_crit
                else:
                    coef = np.ravel(est.coef_)
                    full = np.r_[coef, np.ravel(np.atleast_1d(est.intercept_))[0]] if icpt else coef
                    stop = getattr(est, "stop_crit_", None)
            else:
                if name == "L1":
                    pu, rp = P.L1(alpha), R.RefPenalty("l1", alpha=alpha)
                elif name == "L1_plus_L2":
                    pu, rp = P.L1_plus_L2(alpha, l1r), R.RefPenalty("enet", alpha=alpha, l1_ratio=l1r)
                elif name == "WeightedL1":
                    pu, rp = P.WeightedL1(alpha, wts.copy()), R.RefPenalty("wl1", alpha=alpha, weights=wts)
                elif name == "MCPenalty":
                    pu, rp = P.MCPenalty(alpha, gam), R.RefPenalty("mcp", alpha=alpha, gamma=gam)
                elif name == "WeightedMCPenalty":
                    pu = P.WeightedMCPenalty(alpha, gam, wts.copy())
                    rp = R.RefPenalty("wmcp", alpha=alpha, gamma=gam, weights=wts)
                elif name == "WeightedGroupL2":
                    ptr, ind = C.groups_to_ptr(groups)
                    pu = P.WeightedGroupL2(alpha, gw.copy(), ptr, ind)
                    rp = R.RefPenalty("group", alpha=alpha, weights=gw, groups=groups)
                else:
                    pu, rp = P.L2_1(alpha), R.RefPenalty("l21", alpha=alpha)
                if dfname == "QuadraticGroup":
                    ptr, ind = C.groups_to_ptr(groups)
                    du = D.QuadraticGroup(ptr, ind)
                else:
                    du = getattr(D, dfname)()
                df, pen = C.compiled(du), C.compiled(pu)
                if hasattr(df, "initialize") and not hasattr(Xin, "indptr"):
                    df.initialize(Xin, y)
                elif hasattr(df, "initialize_sparse") and hasattr(Xin, "indptr"):
                    df.initialize_sparse(Xin.data, Xin.indptr, Xin.indices, y)
                skw = dict(tol=tol, fit_intercept=icpt, max_iter=300, p0=p0)
                if kind in ("AndersonCD", "GroupBCD", "MultiTaskBCD"):
                    skw["max_epochs"] = 5000
                solver = getattr(S, kind)(**skw)
                full, obj, stop = solver.solve(Xin, y, df, pen)
                coef = full[:p]
        return np.asarray(coef, float), np.asarray(full, float), stop, R.RefProblem(X, y, refdf, rp, icpt)

    try:
        # ------------------------------------------------ above
        alpha_hi = crit * (1 + eps_above)
        coef, full, stop, prob = fit(alpha_hi)
        pen_mask = np.ones(p, bool)
        pen_mask[unpen] = False
        nonconvex_with_nuisance = name in ("MCPenalty", "WeightedMCPenalty", "MCPRegression") and (icpt or len(unpen))
        if nonconvex_with_nuisance:
            # a cold start is then not the null model: while the intercept / unpenalised part converge a feature may
            # activate and a non-convex penalty may keep it (another stationary point) -- not judged
            pass
        elif np.any(coef[pen_mask] != 0):
            viols.append(dict(common, mechanism="non-zero-coefficient-at-or-above-alpha_max", eps=eps_above,
                              detail="alpha = alpha_max*(1+%g): max |penalised coef| = %.3g (alpha_max=%r, reference critical "
                                     "value=%r)" % (eps_above, float(np.max(np.abs(coef[pen_mask]))), crit, crit_ref)))
        else:
            # the unpenalised part must be the loss minimiser
            if name != "SqrtLasso":
                gb = np.max(np.abs(prob.df.grad_b(X, y, *prob.split(full)))) if icpt else 0.0
                gu = float(np.max(np.abs(prob.gradient(full)[unpen]))) if len(unpen) else 0.0
                if stop is not None and stop <= tol:
                    n_conv += 1
                    if max(gb, gu) > tol * (1 + 1e-6) + 1e-10 * (1 + float(np.max(np.abs(y)))):
                        viols.append(dict(common, mechanism="null-model-not-optimal-at-alpha_max", eps=eps_above,
                                          component="intercept" if gb >= gu else "unpenalised-features",
                                          detail="converged (stop=%.3g) at alpha_max*(1+%g) but |dF/db|=%.3g, unpenalised "
                                                 "gradient=%.3g" % (stop, eps_above, gb, gu)))
        # ------------------------------------------------ below
        alpha_lo = crit * (1 - eps_below)
        coef2, full2, stop2, prob2 = fit(alpha_lo)
        conv2 = (stop2 is None) or (stop2 <= tol)
        for side, st_ in (("above", stop), ("below", stop2)):
            if st_ is not None and not st_ <= tol and np.isfinite(st_) and st_ > 1e-4:
                # bounded progress: these are tiny convex-or-MCP problems with budgets 10-100x what they need
                viols.append(dict(common, mechanism="does-not-converge-near-alpha_max", side=side, stop=float(st_),
                                  detail="alpha = alpha_max*(1 %s eps): stop_crit=%.3g after the generous budget" % (
                                      "+" if side == "above" else "-", st_)))
        if conv2:
            n_conv += 1
            if not np.any(coef2[pen_mask] != 0):
                viols.append(dict(common, mechanism="identically-zero-below-alpha_max", eps=eps_below,
                                  detail="alpha = alpha_max*(1-%g): all penalised coefficients zero (alpha_max=%r, reference "
                                         "critical value=%r)" % (eps_below, crit, crit_ref)))
    except Exception as e:
        viols.append(dict(common, mechanism="fit-raises", exc=type(e).__name__, detail=repr(e)[:300]))
    if name == "SqrtLasso" and not viols:
        with warnings.catch_warnings():
            warnings.simplefilter("ignore")
            sq = SqrtLasso(tol=tol, max_iter=200)
            if rng.random() < 0.5:
                # the same object swept other data before: its default grid must start at the critical value of THIS data
                Xo = C.make_X(rng, n + 3, p, "gauss") * float(rng.choice([0.2, 5.0]))
                sq.path(Xo, C.make_target(rng, Xo, "real", noise=1.0), alphas=None, n_alphas=3)
            als, cfs = sq.path(X, y, alphas=None, n_alphas=5)
        if np.any(cfs[0] != 0) or not np.any(cfs[1:] != 0):
            viols.append(dict(common, mechanism="default-path-does-not-start-at-critical-value",
                              detail="first column max %.3g, later columns max %.3g" % (
                                  np.max(np.abs(cfs[0])), np.max(np.abs(cfs[1:])))))
        if not R.close(float(als[0]), crit_ref, rel=1e-9):
            viols.append(dict(common, mechanism="alpha_max-differs-from-critical-value", penalty="SqrtLasso.path",
                              detail="path alpha_max=%r reference=%r" % (float(als[0]), crit_ref)))
    rec = dict(base, nontrivial=bool(n_conv >= 1), count=dict(fits=2, converged_fits=n_conv),
               hist={"eps_above": eps_above, "eps_below": eps_below})
    if viols:
        rec.update(status="violated", viol=viols[0], viols=viols,
                   obs=dict(n=n, p=p, alpha_max=crit, reference_critical=crit_ref, weights=small(wts, 12),
                            all=[v["detail"] for v in viols[:4]]))
    else:
        rec["status"] = "held"
    if sample:
        rec["sample"] = dict(target=target, alpha_max=crit, reference_critical_value=crit_ref, eps_above=eps_above,
                             eps_below=eps_below, fit_intercept=icpt)
    emit(rec)
