"""C18 — fitting is pure: inputs untouched, no state leaks between fits.

Monitors (boundary recorder over estimator / solver API calls):
  (a) byte-level digests (data + shape + dtype, for sparse: data / indices / indptr) of X, y, weights, groups, sample
      weights, alphas and coef_init before a call and after it returns must be equal for fit / path; solver.solve
      may write w_init / Xw_init only;
  (b) after a random history of fits of other estimators (sharing datafit / penalty classes, other shapes, dtypes and
      sparsity, path() calls that rewrite penalty.alpha, reweighting that rewrites penalty weights, deep copies /
      clones of components) a probe fit must give bit-for-bit the result of the same fit in a fresh process;
  (c) fitting the same estimator object twice gives the same result both times and never raises.
"""
import hashlib
import json
import os
import subprocess
import warnings
import numpy as np
import scipy.sparse as sp

from vlib import compose as C
from vlib import refmath as R
from vlib import probe as PB
from vlib.common import rng_for, want, small
from vlib.runner import digest, VERIF_DIR, PY

PROPERTY = "C18"
LEVEL = "exploration"
TECHNIQUE = "runtime monitoring: boundary recorder (byte digests of every argument before/after each call) + history checker against fresh-process baselines"
LEVEL_TEXT = ("Every estimator's fit / path and every solver's solve are called with their arguments digested byte-for-byte "
              "before and after; random histories of fits (different estimators, shapes, dtypes, sparsity, clones, paths, "
              "reweighting) are followed by a probe fit whose coefficients must be bitwise those of the same fit in a fresh "
              "process; every fitted estimator is fitted a second time, an identically configured one is fitted on data of "
              "another shape first, and a used solver object is compared with a fresh one on other data. Containers "
              "include CSC with stored zeros.")
LEVEL_NOTE = ("probes use the deterministic solvers (no sparse power method); fresh-process baselines are computed by "
              "`python -m vlib.probe` with the same seeded data generators")
RULE = ("cases = (a) (api call, container, estimator), (b) (history of 2-8 operations, probe), (c) (estimator, data); "
        "non-trivial = the call returned and the probe has a non-zero coefficient; distinct = digest(case)")
SLACK = {"digests": "sha1 of bytes (exact)"}
ASSUMPTIONS = ["sklearn _validate_data shim for regression estimators"]
FLOOR = {"quick": 100, "thorough": 1000}
REPS = {"quick": 8, "thorough": 70}
N_HIST = {"quick": 3, "thorough": 30}

ESTS = ["Lasso", "ElasticNet", "WeightedLasso", "MCPRegression", "GroupLasso", "MultiTaskLasso", "SparseLogisticRegression",
        "LinearSVC", "CoxEstimator", "GLE", "SqrtLasso", "IterativeReweightedL1"]


def plan(tier, seed):
    sh = [dict(name="args/%s" % e, mode="args", est=e, reps=REPS[tier]) for e in ESTS]
    sh += [dict(name="solve", mode="solve", reps=REPS[tier] * 3)]
    sh += [dict(name="hist/%d" % i, mode="hist", idx=i, reps=N_HIST[tier]) for i in range(8)]
    return sh


def dig(a):
    h = hashlib.sha1()
    if a is None:
        return "none"
    if sp.issparse(a):
        for part in (a.data, a.indices, a.indptr):
            h.update(np.ascontiguousarray(part).tobytes())
        h.update(repr((a.shape, a.dtype, a.format)).encode())
        return h.hexdigest()
    if isinstance(a, (list, tuple)):
        return hashlib.sha1(json.dumps(a, default=lambda o: np.asarray(o).tolist()).encode()).hexdigest()
    a = np.asarray(a)
    h.update(np.ascontiguousarray(a).tobytes())
    h.update(repr((a.shape, a.dtype.str)).encode())
    return h.hexdigest()


def spec_for(est, rng, seed, tag):
    n, p = int(rng.integers(12, 36)), int(rng.integers(4, 12))
    if est == "GroupLasso":
        p = int(rng.choice([4, 6, 8, 12]))
    storage = str(rng.choice(["dense", "csc", "float32", "csc_explicit0", "dense_F"])) \
        if est not in ("SqrtLasso", "IterativeReweightedL1", "MultiTaskLasso") else "dense"
    target = {"SparseLogisticRegression": "pm1", "LinearSVC": "pm1", "CoxEstimator": "surv", "MultiTaskLasso": "multi"}.get(est, "real")
    kw = dict(tol=1e-6)
    a = float(rng.choice([0.02, 0.1, 0.3]))
    if est in ("Lasso", "ElasticNet", "WeightedLasso", "MCPRegression", "GroupLasso", "MultiTaskLasso", "SparseLogisticRegression"):
        kw.update(alpha=a, fit_intercept=bool(rng.integers(0, 2)))
    if est == "ElasticNet":
        kw["l1_ratio"] = 0.6
    if est == "WeightedLasso":
        kw["weights"] = rng.uniform(0.3, 2, size=p).tolist()
    if est == "GroupLasso":
        kw["groups"] = 2
    if est == "LinearSVC":
        kw["C"] = 1.0
    if est == "CoxEstimator":
        kw.update(alpha=a, l1_ratio=0.7)
        storage = "dense_F" if storage == "float32" else storage
    if est == "GLE":
        kw.update(alpha=a, fit_intercept=True)
    if est == "SqrtLasso":
        kw.update(alpha=0.4)
    if est == "IterativeReweightedL1":
        kw = dict(alpha=a)
    dens = float(rng.choice([1.0, 0.6]))
    if storage == "csc_explicit0":
        dens = 0.6          # stored zeros that a "clean-up" of the caller's matrix would remove
    return dict(estimator=est, kwargs=kw, seed=seed, data=[tag], n=n, p=p, xkind=str(rng.choice(["gauss", "ar"])),
                density=dens, target=target, storage=storage, n_tasks=2)


def run_shard(spec, emit):
    fn = dict(args=args_shard, solve=solve_shard, hist=hist_shard)[spec["mode"]]
    try:
        fn(spec, emit)
    except Exception:
        import traceback
        emit(dict(id=spec["name"] + "/crash", cell="harness", status="inconclusive", obs=dict(tb=traceback.format_exc()[-2000:])))


# ---------------------------------------------------------------------------------------------- (a) + (c)
def args_shard(spec, emit):
    est_name, seed = spec["est"], spec["seed"]
    for rep in range(spec["reps"]):
        cid = "args/%s/r%d" % (est_name, rep)
        if not want(spec, cid):
            continue
        rng = rng_for("C18", seed, "args", est_name, rep)
        ps = spec_for(est_name, rng, seed, "args-%s-%d" % (est_name, rep))
        X, y, _ = PB.build_data(ps)
        est = PB.build_estimator(ps, X.shape[1])
        wts = getattr(est, "weights", None)
        if est_name == "GLE" and rep % 2 == 1:
            # sample weights handed to a datafit are user-supplied hyper-parameter arrays too
            import skglm.datafits as D
            import skglm.penalties as P
            from skglm.solvers import AndersonCD
            import skglm.estimators as E
            wts = rng.uniform(0.5, 3.0, size=X.shape[0]).astype(X.dtype)
            est = E.GeneralizedLinearEstimator(D.WeightedQuadratic(wts), P.L1(ps["kwargs"]["alpha"]),
                                               AndersonCD(tol=1e-6, fit_intercept=True))
        before = dict(X=dig(X), y=dig(y), weights=dig(wts))
        base = dict(id=cid, cell="fit|%s|%s" % (est_name, ps["storage"]), digest=digest(cid, seed), nontrivial=True)
        viols = []
        try:
            with warnings.catch_warnings():
                warnings.simplefilter("ignore")
                est.fit(X, y)
                d1, v1 = PB.model_digest(est)
                after = dict(X=dig(X), y=dig(y), weights=dig(wts))
                for k in before:
                    if before[k] != after[k]:
                        viols.append(dict(mechanism="fit-modifies-input", estimator=est_name, argument=k, storage=ps["storage"],
                                          detail="%s changed during fit" % k))
                # (c) fit again: must not raise and must give the same model
                try:
                    est.fit(X, y)
                    d2, v2 = PB.model_digest(est)
                    # (the CSC group Lipschitz constants come from a randomly started power method: equal up to the solver tolerance)
                    same = d1 == d2 or (est_name == "GroupLasso" and ps["storage"].startswith("csc") and all(
                        np.allclose(v1[k], v2[k], rtol=1e-3, atol=1e-4) for k in v1))   # both fits stop at tol=1e-6
                    if not same:
                        viols.append(dict(mechanism="second-fit-differs-from-first", estimator=est_name, storage=ps["storage"],
                                          detail="%s vs %s" % (str(v1)[:150], str(v2)[:150])))
                except Exception as e:
                    viols.append(dict(mechanism="second-fit-raises", estimator=est_name, exc=type(e).__name__,
                                      detail=repr(e)[:250]))
                # (d) an identically configured object that was fitted on OTHER data first (other number of samples and,
                # where the configuration allows it, of features): its fit on (X, y) is that of the fresh object above
                if not (est_name == "GLE" and rep % 2 == 1):
                    try:
                        p_here = X.shape[1]
                        p_oth = p_here if est_name == "WeightedLasso" else max(4, p_here + 2 * int(rng.choice([-2, -1, 1, 2])))
                        ps_o = dict(ps, data=["other-" + str(ps["data"][0])], n=int(ps["n"]) + int(rng.integers(-5, 9)), p=p_oth)
                        Xo, yo, _ = PB.build_data(ps_o)
                        est_b = PB.build_estimator(ps, p_here)
                        est_b.fit(Xo, yo)
                        est_b.fit(X, y)
                        d3, v3 = PB.model_digest(est_b)
                        same = d1 == d3 or (est_name == "GroupLasso" and ps["storage"].startswith("csc") and all(
                            np.allclose(v1[k], v3[k], rtol=1e-3, atol=1e-4) for k in v1))
                        if not same:
                            viols.append(dict(mechanism="fit-after-other-data-differs-from-fresh-fit", estimator=est_name,
                                              storage=ps["storage"], other_shape=list(Xo.shape), shape=list(X.shape),
                                              detail="fresh %s vs after a fit on data of shape %s: %s" % (
                                                  str(v1)[:120], Xo.shape, str(v3)[:120])))
                    except Exception as e:
                        viols.append(dict(mechanism="fit-after-other-data-raises", estimator=est_name, exc=type(e).__name__,
                                          detail=repr(e)[:250]))
                # path(): alphas / coef_init untouched
                if hasattr(est, "path") and est_name in ("Lasso", "ElasticNet", "WeightedLasso", "MCPRegression", "MultiTaskLasso"):
                    alphas = np.array([0.5, 0.2, 0.3]) * float(est.alpha) * 3
                    multi = est_name == "MultiTaskLasso"
                    ci = None
                    if not multi:
                        ci = rng.standard_normal(X.shape[1] + int(est.fit_intercept)).astype(X.dtype)
                    b2 = dict(X=dig(X), y=dig(y), alphas=dig(alphas), coef_init=dig(ci))
                    est.path(X, y, alphas, coef_init=ci)
                    a2 = dict(X=dig(X), y=dig(y), alphas=dig(alphas), coef_init=dig(ci))
                    for k in b2:
                        if b2[k] != a2[k]:
                            viols.append(dict(mechanism="path-modifies-input", estimator=est_name, argument=k,
                                              storage=ps["storage"], detail="%s changed during path" % k))
                    # (e) a NEW, identically configured object fitted after that sweep: the sweep (which re-uses one
                    # penalty object for all its alphas) must not have changed what the configuration means
                    est_c = PB.build_estimator(ps, X.shape[1])
                    est_c.fit(X, y)
                    d4, v4 = PB.model_digest(est_c)
                    if d4 != d1:
                        viols.append(dict(mechanism="fit-after-path-differs-from-fresh-fit", estimator=est_name,
                                          storage=ps["storage"],
                                          detail="fresh %s vs after a path sweep: %s" % (str(v1)[:120], str(v4)[:120])))
        except Exception as e:
            viols.append(dict(mechanism="fit-raises", estimator=est_name, exc=type(e).__name__, storage=ps["storage"],
                              detail=repr(e)[:250]))
        rec = dict(base, count=dict(api_calls=3))
        if viols:
            rec.update(status="violated", viol=viols[0], viols=viols, obs=dict(spec=ps))
        else:
            rec["status"] = "held"
        if rep == 0:
            rec["sample"] = dict(estimator=est_name, storage=ps["storage"], arguments_digested=list(before))
        emit(rec)


def solve_shard(spec, emit):
    from vlib import cases as K
    seed = spec["seed"]
    cells = [("AndersonCD", "Quadratic", "WeightedL1"), ("AndersonCD", "WeightedQuadratic", "L1"), ("ProxNewton", "Logistic", "WeightedL1"),
             ("GroupBCD", "QuadraticGroup", "WeightedGroupL2"), ("MultiTaskBCD", "QuadraticMultiTask", "L2_1"),
             ("GramCD", None, "WeightedL1"), ("FISTA", "Quadratic", "L1"), ("LBFGS", "Logistic", "L2"),
             ("GroupProxNewton", "LogisticGroup", "WeightedGroupL2"), ("AndersonCD", "QuadraticSVC", "IndicatorBox"),
             ("ProxNewton", "Cox", "L1")]
    for rep in range(spec["reps"]):
        s, d, p_ = cells[rep % len(cells)]
        cid = "solve/%s/%s/%s/r%d" % (s, d, p_, rep)
        if not want(spec, cid):
            continue
        rng = rng_for("C18", seed, "solve", rep)
        info = K.SOLVER_INFO[s]
        cs = dict(check="C18", seed=seed, coords=["solve", rep], solver=s, datafit=d, penalty=p_,
                  storage=str(rng.choice(["dense", "csc", "csc_explicit0"])) if info["sparse"] and not (s == "GroupBCD" and d == "LogisticGroup") else "dense",
                  density=0.6,
                  fit_intercept=bool(rng.integers(0, 2)), strategy="subdiff", n=int(rng.integers(10, 30)), p=int(rng.integers(3, 10)),
                  knobs=dict(tol=1e-6), alpha_frac=0.1, n_tasks=2, warm=str(rng.choice(["cold", "dense"])))
        case = K.Case(cs)
        watched = dict(X=case.X, y=case.y)
        for nm in ("weights", "sw", "weights_groups", "weights_features", "alphas"):
            v = case.pen_prm.get(nm, case.df_prm.get(nm))
            if isinstance(v, np.ndarray):
                watched[nm] = v
        # digests are taken before the datafit is even initialised on the data (initialisation is part of the call)
        before = {k: dig(v) for k, v in watched.items()}
        df, pen = case.compiled()
        w0, xw0 = case.start(cs["warm"])
        solver = case.make_solver()
        rec = dict(id=cid, cell="solve|%s|%s|%s|%s" % (s, d, p_, cs["storage"]), digest=digest(cs), nontrivial=True,
                   count=dict(api_calls=1))
        try:
            with warnings.catch_warnings():
                warnings.simplefilter("ignore")
                solver.solve(case.X, case.y, None if s == "GramCD" else df, pen, w0, xw0)
            after = {k: dig(v) for k, v in watched.items()}
            bad = [k for k in before if before[k] != after[k]]
            if bad:
                rec.update(status="violated", viol=dict(mechanism="solve-modifies-input", solver=s, datafit=d, penalty=p_,
                                                        argument=bad[0], detail="%s changed during solve" % bad))
            else:
                rec["status"] = "held"
                # the same solver object on other data of the same shape (columns on very different scales: every
                # constant derived from the data changes): the result is that of a fresh solver object
                csB = dict(cs, coords=["solveB", rep], xkind="scaled", warm="cold")
                caseB = K.Case(csB)
                outs = []
                for sv in (solver, caseB.make_solver()):
                    dfB, penB = caseB.compiled()
                    with warnings.catch_warnings():
                        warnings.simplefilter("ignore")
                        outs.append(np.asarray(sv.solve(caseB.X, caseB.y, None if s == "GramCD" else dfB, penB)[0], float))
                rec["count"]["api_calls"] += 2
                nondet = (s == "GroupBCD" and csB["storage"] != "dense")          # randomly started power method
                if not R.close(outs[0], outs[1], rel=1e-3 if nondet else 1e-9):
                    rec.update(status="violated",
                               viol=dict(mechanism="solver-object-carries-state-between-solves", solver=s, datafit=d, penalty=p_,
                                         maxdiff=R.maxdiff(outs[0], outs[1]),
                                         detail="second solve with a used solver object differs from a fresh one by %.3g" %
                                                R.maxdiff(outs[0], outs[1])))
        except Exception as e:
            rec.update(status="refused", nontrivial=False, obs=dict(exc=repr(e)[:200]))
        emit(rec)


# ---------------------------------------------------------------------------------------------- (b)
def fresh_baseline(ps):
    env = dict(os.environ)
    env["PYTHONPATH"] = VERIF_DIR + os.pathsep + env.get("PYTHONPATH", "")
    pr = subprocess.run([PY, "-m", "vlib.probe", json.dumps(ps)], cwd=VERIF_DIR, env=env, capture_output=True, timeout=600)
    for line in pr.stdout.decode(errors="replace").splitlines():
        if line.startswith("PROBE "):
            return json.loads(line[6:])
    return dict(error="no probe output: " + pr.stderr.decode(errors="replace")[-300:])


def hist_shard(spec, emit):
    import copy
    from sklearn.base import clone
    seed = spec["seed"]
    det = ["Lasso", "ElasticNet", "WeightedLasso", "MCPRegression", "MultiTaskLasso", "SparseLogisticRegression", "LinearSVC",
           "GLE", "SqrtLasso", "IterativeReweightedL1", "CoxEstimator"]
    for rep in range(spec["reps"]):
        cid = "hist/%d/r%d" % (spec["idx"], rep)
        if not want(spec, cid):
            continue
        rng = rng_for("C18", seed, "hist", spec["idx"], rep)
        ops = []
        viols = []
        past = []
        for k in range(int(rng.integers(2, 9))):
            name = str(rng.choice(det + ["GroupLasso"]))
            ps = spec_for(name, rng, seed, "h-%d-%d-%d" % (spec["idx"], rep, k))
            past.append(ps)
            kind = str(rng.choice(["fit", "fit", "fit_twice", "path", "clone", "deepcopy_components"]))
            ops.append((kind, name, ps["storage"]))
            try:
                X, y, _ = PB.build_data(ps)
                est = PB.build_estimator(ps, X.shape[1])
                with warnings.catch_warnings():
                    warnings.simplefilter("ignore")
                    if kind == "clone" and name not in ("GLE", "IterativeReweightedL1"):
                        est = clone(est)
                    if kind == "deepcopy_components":
                        import skglm.penalties as P
                        import skglm.datafits as D
                        copy.deepcopy(P.L1(0.3)), copy.deepcopy(P.WeightedL1(0.3, np.ones(3))), copy.deepcopy(D.Quadratic())
                        copy.deepcopy(P.MCPenalty(1., 3.)), copy.deepcopy(D.Logistic()), copy.deepcopy(P.L1_plus_L2(1., .5))
                    if kind == "path" and hasattr(est, "path") and name in ("Lasso", "ElasticNet", "WeightedLasso", "MCPRegression"):
                        est.path(X, y, np.array([3.0, 1.0, 0.3]) * float(est.alpha))
                    else:
                        est.fit(X, y)
                        if kind == "fit_twice":
                            est.fit(X, y)
            except Exception as e:
                viols.append(dict(mechanism="history-operation-raises", estimator=name, op=kind, exc=type(e).__name__,
                                  detail="%s %s: %r" % (kind, name, e)[:300]))
        # probe
        pname = str(rng.choice(det))
        pps = spec_for(pname, rng, seed, "probe-%d-%d" % (spec["idx"], rep))
        related = [q for q in past if q["estimator"] in det]
        if related and rng.random() < 0.6:
            # a probe that shares estimator class AND hyper-parameters with something fitted earlier (on other data):
            # this is where state cached per (class, parameters) would leak
            q = related[int(rng.integers(0, len(related)))]
            pname = q["estimator"]
            pps = dict(pps, estimator=pname, kwargs=dict(q["kwargs"]), target=q["target"], p=q["p"], storage=q["storage"])
        if pps["storage"].startswith("csc") and pname in ("GroupLasso",):
            pps["storage"] = "dense"
        rec = dict(id=cid, cell="history->probe|%s" % pname, digest=digest(cid, seed), count=dict(history_ops=len(ops), probes=1),
                   hist={"history_length": len(ops)})
        try:
            d_here, v_here = PB.run_probe(pps)
            fresh = fresh_baseline(pps)
            if "error" in fresh:
                viols.append(dict(mechanism="fresh-process-probe-fails", estimator=pname, detail=fresh["error"]))
            elif fresh["digest"] != d_here:
                viols.append(dict(mechanism="fit-depends-on-process-history", estimator=pname, storage=pps["storage"],
                                  detail="after %s: %s | fresh process: %s" % (ops, str(v_here)[:120], str(fresh["vals"])[:120])))
            rec["nontrivial"] = True
        except Exception as e:
            viols.append(dict(mechanism="probe-raises-after-history", estimator=pname, exc=type(e).__name__, storage=pps["storage"],
                              detail="after %s: %r" % (ops, e)))
            rec["nontrivial"] = True
        if viols:
            rec.update(status="violated", viol=viols[0], viols=viols, obs=dict(history=ops, probe=pps))
        else:
            rec["status"] = "held"
        if rep == 0:
            rec["sample"] = dict(history=ops, probe=dict(estimator=pname, storage=pps["storage"]))
        emit(rec)
