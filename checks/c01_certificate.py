"""C01 — reported convergence is a valid first-order optimality certificate.

Monitor: post-condition on every solve() return of the workload: if stop_crit <= tol then the violation
recomputed by the reference model from X, y and the returned coefficients alone (distance to the
subdifferential for `subdiff`, prox-gradient fixed-point residual for `fixpoint`, gradient norm for LBFGS,
|df/db| for the intercept) is <= tol*(1+1e-6) + rounding slack.
"""
import numpy as np

from vlib import cases as K
from vlib import oracles as O
from vlib.common import rng_for, want, small
from vlib.runner import digest

PROPERTY = "C01"
LEVEL = "exploration"
TECHNIQUE = "runtime monitoring: reference-model post-condition (optimality certificate) on every solve() return"
LEVEL_TEXT = ("Every accepted solver x datafit x penalty composition is run on generated problems over a grid of "
              "tolerances, working-set sizes, budgets (max_iter=0 included), strategies, intercept settings, storage "
              "formats and warm starts; each return that claims stop_crit <= tol is checked against a certificate "
              "recomputed from X, y and the returned values by an independent numpy model. Held = no converged "
              "return violated it; the evidence lists converged returns per cell. Extra scenario families: wide problems "
              "(60-320 features, working sets that must grow), straddle runs (p0=1, 1-3 epochs per outer iteration) and "
              "tolerance sweeps (the exit visits every phase of the extrapolation cycle).")
LEVEL_NOTE = ("trusted: vlib/refmath.py (subdifferentials, proxes, gradients); only returns with stop_crit <= tol decide; "
              "problems n<=120, p<=320; violations below tol*1e-6 + 1e-10*(1+|grad|) are invisible")
RULE = ("cases = (solver, datafit, penalty, storage, intercept, strategy, tol, p0, budgets, warm start, alpha fraction, "
        "design class) drawn per cell from seeded generators, each converged case followed by restarts from its optimum "
        "with one coordinate / the intercept moved; non-trivial = the return claims convergence (stop_crit <= tol), "
        "distinct = digest of the case spec (+ perturbation kind)")
SLACK = O.SLACK
ASSUMPTIONS = ["reference certificate in vlib/refmath.py", "Xw_init always consistent with w_init (generator-enforced)"]
FLOOR = {"quick": 600, "thorough": 10000}
REPS = {"quick": 5, "thorough": 60}
SOLVERS = ["AndersonCD", "ProxNewton", "GroupBCD", "GroupProxNewton", "MultiTaskBCD", "GramCD", "LBFGS"]


def plan(tier, seed):
    shards = []
    for solver in SOLVERS:
        info = K.SOLVER_INFO[solver]
        for df in info["datafits"]:
            pens = [p for p in info["penalties"] if any(
                K.compatible(solver, df, p, "dense", False, st) for st in info["strategies"])]
            size = 3 if solver in ("AndersonCD", "ProxNewton") else 6
            for i in range(0, len(pens), size):
                shards.append(dict(name="%s/%s/%d" % (solver, df, i // size), solver=solver, datafit=df,
                                   penalties=pens[i:i + size], reps=REPS[tier]))
    # "straddle" scenarios: many more units than the first working set (p0=1) and only 1-3 epochs per outer iteration
    # with a large number of outer iterations, so that Anderson histories, extrapolations and early exits fall across
    # working-set changes and the run still reaches its tolerance
    for solver in ("AndersonCD", "GroupBCD", "MultiTaskBCD", "ProxNewton", "GroupProxNewton"):
        info = K.SOLVER_INFO[solver]
        for df in info["datafits"]:
            pens = [p for p in info["penalties"] if any(
                K.compatible(solver, df, p, "dense", False, st) for st in info["strategies"])]
            shards.append(dict(name="straddle/%s/%s" % (solver, df), solver=solver, datafit=df, penalties=pens[:4],
                               reps={"quick": 2, "thorough": 25}[tier], straddle=True))
    for sv, df, pen in K.TOLSWEEP_FAMILIES:
        shards.append(dict(name="tolsweep/%s/%s/%s" % (sv, df, pen), solver=sv, datafit=df, penalties=[pen],
                           reps={"quick": 1, "thorough": 12}[tier], tolsweep={"quick": 10, "thorough": 24}[tier]))
    return shards


def gen_spec(rng, solver, df, pen, seed, coords):
    info = K.SOLVER_INFO[solver]
    storage = str(rng.choice(["dense", "csc"])) if info["sparse"] else "dense"
    strategy = str(rng.choice(info["strategies"]))
    if pen == "WeightedL1GroupL2":
        strategy = "fixpoint"
    icpt = bool(rng.integers(0, 2)) and info["intercept"] and df not in ("QuadraticSVC", "Cox")
    if not K.compatible(solver, df, pen, storage, icpt, strategy):
        storage = "dense"
    n = int(rng.integers(8, 40))
    p = int(rng.integers(3, 25))
    tol = float(rng.choice([1e-3, 1e-6, 1e-10]))
    knobs = dict(tol=tol)
    b_it, b_ep = (info["budget"] + (None,))[:2]
    r = rng.random()
    if r < 0.08:
        knobs[b_it] = 0
    elif r < 0.25:
        knobs[b_it] = int(rng.integers(1, 4))
        if b_ep:
            knobs[b_ep] = int(rng.integers(1, 23))
    else:
        knobs[b_it] = 60 if solver != "LBFGS" else 500
        if b_ep:
            knobs[b_ep] = 3000 if b_ep == "max_epochs" else 200
    if solver == "GramCD":
        knobs[b_it] = knobs[b_it] if knobs[b_it] < 10 else 3000
        knobs["greedy_cd"] = bool(rng.integers(0, 2))
        knobs["use_acc"] = (not knobs["greedy_cd"]) and bool(rng.integers(0, 2))
    if solver in ("AndersonCD", "ProxNewton", "GroupBCD", "GroupProxNewton", "MultiTaskBCD"):
        knobs["p0"] = int(rng.choice([1, 2, 10, p]))
    if solver == "MultiTaskBCD":
        knobs["use_acc"] = bool(rng.integers(0, 2))
        if knobs.get("max_epochs", 100) < 11:
            knobs["max_epochs"] = 11       # smaller budgets raise UnboundLocalError (tracked under C17/C13)
    spec = dict(check="C01", seed=seed, coords=coords, solver=solver, datafit=df, penalty=pen, storage=storage,
                fit_intercept=icpt, strategy=strategy, n=n, p=p,
                xkind=str(rng.choice(["gauss", "ar", "scaled", "shifted", "centered"])), rho=float(rng.choice([0.5, 0.95])),
                alpha_frac=float(rng.choice([0.01, 0.1, 0.5, 1.2])),
                positive=bool(rng.integers(0, 2)) if pen in K.POSFLAG + ["WeightedGroupL2"] else False,
                zero_weights=bool(rng.integers(0, 2)), knobs=knobs,
                group_style=str(rng.choice(["contig", "perm", "trap"])), n_tasks=int(rng.integers(1, 4)),
                warm=str(rng.choice(["cold", "zero", "dense", "sparse"])))
    if pen in ("MCPenalty", "WeightedMCPenalty", "SCAD", "BlockMCPenalty", "BlockSCAD") and rng.random() < 0.5:
        spec["pen_opts"] = dict(gamma=float(rng.choice([3.0, 10.0, 50.0])))
    return K.widen(rng, spec)


def run_shard(spec, emit):
    solver, df, seed = spec["solver"], spec["datafit"], spec["seed"]
    k = 0
    for pen in spec["penalties"]:
        for rep in range(spec["reps"]):
            k += 1
            cid = "%s/%s/%s/r%d" % (solver, df, pen, rep)
            if not want(spec, cid):
                continue
            rng = rng_for("C01", seed, solver, str(df), pen, rep)
            cs = gen_spec(rng, solver, df, pen, seed, [solver, str(df), pen, rep])
            if spec.get("straddle"):
                cid = "straddle/" + cid
                info = K.SOLVER_INFO[solver]
                b_it, b_ep = (info["budget"] + (None,))[:2]
                cs.update(n=int(rng.integers(40, 90)), p=int(rng.integers(90, 260)), size="wide", warm="cold",
                          alpha_frac=float(rng.choice([0.05, 0.15, 0.3])))
                cs["knobs"].update({"tol": float(rng.choice([1e-6, 1e-8])), "p0": 1, b_it: 600})
                if b_ep:
                    cs["knobs"][b_ep] = int(rng.integers(1, 4)) if b_ep == "max_epochs" else int(rng.integers(1, 3))
                if solver == "MultiTaskBCD":
                    cs["knobs"]["max_epochs"] = 11          # (smaller budgets: see gen_spec)
                    cs["knobs"]["use_acc"] = True
            if spec.get("tolsweep"):
                for i, c2 in enumerate(K.tol_sweep(rng, cs, spec["tolsweep"])):
                    run_case(emit, "tolsweep/%s/t%d" % (cid, i), c2, sample=False)
                continue
            run_case(emit, cid, cs, sample=(rep == 0 and pen == spec["penalties"][0]))


def run_case(emit, cid, cs, sample=False):
    try:
        case = K.Case(cs)
    except Exception as e:
        emit(dict(id=cid, cell="build", status="inconclusive", obs=dict(exc=repr(e), spec=cs)))
        return
    w0, xw0 = case.start(cs.get("warm", "cold"))
    tol = case.tol()
    out = case.solve(w0, xw0)
    f = O.judge_return(case, out, tol)
    cell = case.cell()
    rec = dict(id=cid, cell=cell, digest=digest(cs), hist={"tol": tol, "warm": cs.get("warm"), "size": cs.get("size", "small")})
    desc = case.describe()
    if f["exc"] is not None:
        # refusals / crashes are C13's and C19's business; here they decide nothing
        rec.update(status="refused", nontrivial=False, obs=dict(exc=f["exc"], msg=f.get("exc_msg"), case=desc))
        emit(rec)
        return
    rec["nontrivial"] = bool(f.get("converged") and "cert" in f)
    if "cert_error" in f:
        rec.update(status="inconclusive", obs=dict(err=f["cert_error"], case=desc))
    elif O.cert_violated(f, tol):
        comp = "intercept" if f.get("cert_intercept", 0) >= f.get("cert_units", 0) else "feature"
        budget_zero = any(v == 0 for kk, v in case.knobs.items() if kk == "max_iter")
        rec.update(status="violated",
                   viol=dict(mechanism="converged-claim-fails-certificate", solver=case.solver_name,
                             datafit=case.df_name, penalty=case.pen_name, storage=case.storage,
                             fit_intercept=case.fit_intercept, strategy=case.strategy, component=comp,
                             tol=tol, stop=f["stop"], cert=f["cert"], ratio=f["cert"] / tol if tol else None,
                             cert_buf=f.get("cert_buf"), drift_rel=f.get("drift_rel"), budget_zero=budget_zero,
                             buffer_cert_ok=(f.get("cert_buf") is not None and f["cert_buf"] <= tol * (1 + 1e-6)),
                             detail="stop_crit=%.3g <= tol=%.1g but reference violation=%.3g (%s)" % (
                                 f["stop"], tol, f["cert"], comp)),
                   obs=dict(case=desc, facts=f, w=small(out["w"], 30)))
    else:
        rec["status"] = "held"
        rec["hist"]["outcome"] = "converged" if f.get("converged") else "not-converged(nothing claimed)"
    if sample:
        rec["sample"] = dict(case=desc, stop_crit=f.get("stop"), reference_violation=f.get("cert"),
                             converged=f.get("converged"))
    emit(rec)
    # ---- second act: restart from the converged point with ONE coordinate moved off its optimal value.  A stopping
    # rule that overlooks some kind of coordinate (a zero inside an active group, an unpenalised or bound feature, the
    # intercept, a feature outside the first working set) then claims convergence at once.
    if rec["status"] == "held" and f.get("converged") and case.solver_name not in ("LBFGS",) and cs.get("perturb", True):
        import copy
        rng = rng_for("C01-perturb", cs["seed"], *cs["coords"])
        w_opt = np.array(out["w"], dtype=float, copy=True)
        body = w_opt[:-1] if case.fit_intercept else w_opt
        nzr = np.flatnonzero(np.any(body.reshape(body.shape[0], -1) != 0, axis=1))
        zr = np.flatnonzero(~np.any(body.reshape(body.shape[0], -1) != 0, axis=1))
        kinds = []
        if len(nzr):
            kinds += ["zero_a_nonzero"]
        if len(zr):
            kinds += ["activate_a_zero"]
        if case.fit_intercept:
            kinds += ["shift_intercept"]
        for kind in kinds:
            w1 = w_opt.copy()
            b1 = w1[:-1] if case.fit_intercept else w1
            if kind == "zero_a_nonzero":
                b1[int(rng.choice(nzr))] = 0.0
            elif kind == "activate_a_zero":
                j = int(rng.choice(zr))
                b1[j] = abs(rng.standard_normal()) * (0.3 + float(np.max(np.abs(body)))) if b1.ndim == 1 else \
                    np.abs(rng.standard_normal(b1.shape[1])) * (0.3 + float(np.max(np.abs(body))))
                if case.ref_pen.kind == "box":
                    b1[j] = min(b1[j], case.alpha)
            else:
                w1[-1] = w1[-1] + (1.0 + abs(rng.standard_normal())) * (1 if rng.random() < 0.5 else -1)
            wb, bb = case.ref.split(w1)
            xw1 = np.ascontiguousarray(case.Xd @ wb + bb)
            o2 = case.solve(np.ascontiguousarray(w1), xw1)
            f2 = O.judge_return(case, o2, tol)
            cid2 = "%s/perturb:%s" % (cid, kind)
            r2 = dict(id=cid2, cell=cell, digest=digest(cs, kind), hist={"tol": tol, "warm": "optimum+" + kind},
                      nontrivial=bool(f2.get("converged") and "cert" in f2))
            if f2["exc"] is not None or "cert_error" in f2:
                r2.update(status="refused", nontrivial=False, obs=dict(exc=f2.get("exc"), err=f2.get("cert_error")))
            elif O.cert_violated(f2, tol):
                comp = "intercept" if f2.get("cert_intercept", 0) >= f2.get("cert_units", 0) else "feature"
                r2.update(status="violated",
                          viol=dict(mechanism="converged-claim-fails-certificate", solver=case.solver_name,
                                    datafit=case.df_name, penalty=case.pen_name, storage=case.storage,
                                    fit_intercept=case.fit_intercept, strategy=case.strategy, component=comp, tol=tol,
                                    stop=f2["stop"], cert=f2["cert"], ratio=f2["cert"] / tol if tol else None,
                                    start="optimum+" + kind, n_outer=f2.get("n_obj"),
                                    detail="restart from the optimum with %s: stop_crit=%.3g <= tol=%.1g after %s outer "
                                           "iterations but reference violation=%.3g (%s)" % (
                                               kind, f2["stop"], tol, f2.get("n_obj"), f2["cert"], comp)),
                          obs=dict(case=desc, facts=f2, w_start=small(w1, 30), w=small(o2["w"], 30)))
            else:
                r2["status"] = "held"
            emit(r2)
