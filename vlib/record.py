"""Hook sink: records the event stream of the repository's guarded hooks during one call."""


class Trace:
    def __init__(self, kinds=None):
        self.events = []
        self.kinds = kinds

    def _sink(self, kind, payload):
        if self.kinds is None or kind in self.kinds:
            self.events.append((kind, payload))

    def __enter__(self):
        from skglm.utils import _verif
        self._verif = _verif
        self._prev = _verif.sink
        _verif.sink = self._sink
        return self

    def __exit__(self, *a):
        self._verif.sink = self._prev
        return False

    def of(self, kind):
        return [p for k, p in self.events if k == kind]


def hooks_enabled():
    try:
        from skglm.utils import _verif
        return bool(_verif.ON)
    except Exception:
        return False
