"""Fresh-process probe: python -m vlib.probe '<json spec>'  -> prints one JSON line with the digest of the fitted model."""
import hashlib
import json
import sys


def build_data(spec):
    import numpy as np
    from vlib import compose as C
    from vlib.common import rng_for
    rng = rng_for("C18-data", spec["seed"], *spec["data"])
    n, p = spec["n"], spec["p"]
    X = C.make_X(rng, n, p, spec.get("xkind", "gauss"), rho=0.7, density=spec.get("density", 1.0))
    kind = spec.get("target", "real")
    y = C.make_target(rng, X, kind, n_tasks=spec.get("n_tasks", 2))
    if spec.get("storage") in ("csc", "csc_explicit0"):
        X = C.to_storage(X, spec["storage"])      # (csc_explicit0: entries that are zero stay stored)
    elif spec.get("storage") == "float32":
        X = np.asfortranarray(X.astype(np.float32))
    elif spec.get("storage") == "dense_F":
        X = np.asfortranarray(X)            # already in the layout and dtype the library wants: no copy is made for it
    return X, y, rng


def build_estimator(spec, p):
    import numpy as np
    import skglm.estimators as E
    name, kw = spec["estimator"], dict(spec.get("kwargs", {}))
    if "weights" in kw:
        kw["weights"] = np.asarray(kw["weights"], float)
    if name == "GLE":
        import skglm.datafits as D
        import skglm.penalties as P
        from skglm.solvers import AndersonCD
        return E.GeneralizedLinearEstimator(getattr(D, spec.get("gle_datafit", "Quadratic"))(), P.L1(kw.get("alpha", 0.1)),
                                            AndersonCD(tol=kw.get("tol", 1e-6), fit_intercept=kw.get("fit_intercept", True)))
    if name == "IterativeReweightedL1":
        from skglm.experimental.reweighted import IterativeReweightedL1
        from skglm.penalties import L0_5
        from skglm.solvers import AndersonCD
        return IterativeReweightedL1(penalty=L0_5(kw.get("alpha", 0.1)), solver=AndersonCD(tol=1e-8, fit_intercept=False),
                                     n_reweights=3)
    if name == "SqrtLasso":
        from skglm.experimental.sqrt_lasso import SqrtLasso
        return SqrtLasso(**kw)
    return getattr(E, name)(**kw)


def model_digest(est):
    import numpy as np
    h = hashlib.sha1()
    vals = {}
    for attr in ("coef_", "intercept_", "dual_coef_"):
        if hasattr(est, attr):
            a = np.ascontiguousarray(np.asarray(getattr(est, attr), dtype=float))
            h.update(a.tobytes())
            vals[attr] = a.ravel()[:12].tolist()
    return h.hexdigest(), vals


def run_probe(spec):
    import warnings
    X, y, _ = build_data(spec)
    est = build_estimator(spec, X.shape[1])
    with warnings.catch_warnings():
        warnings.simplefilter("ignore")
        est.fit(X, y)
    return model_digest(est)


if __name__ == "__main__":
    from vlib import env  # noqa: F401
    spec = json.loads(sys.argv[1])
    try:
        d, vals = run_probe(spec)
        print("PROBE " + json.dumps(dict(digest=d, vals=vals)))
    except Exception as e:  # noqa
        print("PROBE " + json.dumps(dict(error="%s: %s" % (type(e).__name__, str(e)[:300]))))
