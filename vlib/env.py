"""Process bootstrap for workers: environment, sklearn compatibility shim, skglm imports.

Importing this module (before anything imports skglm/numba) sets the guard variable for the
repository hooks, pins threading, and installs the harness-side `_validate_data` shim (DESIGN 2.1).
"""
import os
import sys
import warnings

VERIF_DIR = os.path.dirname(os.path.dirname(os.path.abspath(__file__)))
REPO_DIR = os.environ.get("VERIF_REPO", "/repo")

os.environ.setdefault("SKGLM_VERIF", "1")
os.environ.setdefault("NUMBA_NUM_THREADS", "1")
os.environ.setdefault("OMP_NUM_THREADS", "1")
os.environ.setdefault("OPENBLAS_NUM_THREADS", "1")
os.environ.setdefault("MKL_NUM_THREADS", "1")
os.environ.setdefault("PYTHONHASHSEED", "0")

_deps = os.path.join(VERIF_DIR, ".deps")
if os.path.isdir(_deps) and _deps not in sys.path:
    sys.path.append(_deps)
if VERIF_DIR not in sys.path:
    sys.path.insert(0, VERIF_DIR)

warnings.filterwarnings("ignore")

import numpy as np  # noqa: E402

np.seterr(all="ignore")

from sklearn.base import BaseEstimator  # noqa: E402
from sklearn.utils.validation import validate_data as _validate_data  # noqa: E402

SHIM_INSTALLED = False
if not hasattr(BaseEstimator, "_validate_data"):
    def _vd(self, X="no_validation", y="no_validation", **kw):
        return _validate_data(self, X, y, **kw)
    BaseEstimator._validate_data = _vd
    SHIM_INSTALLED = True

SHIM_NOTE = ("harness-side shim BaseEstimator._validate_data -> sklearn.utils.validation.validate_data "
             "(sklearn >= 1.6 removed the method; without it every skglm regression estimator raises "
             "AttributeError in fit)")


def repo_is_under_test():
    """True when the imported skglm comes from REPO_DIR's working tree."""
    import skglm
    return os.path.realpath(skglm.__file__).startswith(os.path.realpath(REPO_DIR))
