"""Small helpers shared by check modules."""
import zlib
import numpy as np
import scipy.sparse as sp


def rng_for(check, seed, *coords):
    key = [int(seed), zlib.crc32(str(check).encode())] + [
        (zlib.crc32(str(c).encode()) if not isinstance(c, (int, np.integer)) else int(c)) for c in coords]
    return np.random.default_rng(key)


def want(spec, cid):
    o = spec.get("only")
    # (a replayed id may name a sub-case of `cid`: "<cid>/perturb:...", "<cid>/<label>", "tolsweep/<cid>/t3", "straddle/<cid>")
    return o is None or o == cid or o.startswith(cid + "/") or ("/" + cid + "/") in ("/" + o + "/")


def dense(X):
    return X.toarray() if sp.issparse(X) else np.asarray(X)


def csc_parts(X):
    Xs = X if sp.issparse(X) else sp.csc_matrix(X)
    return Xs.data, Xs.indptr, Xs.indices


def small(a, k=8):
    """compact rendering of arrays for samples / observations."""
    a = np.asarray(a)
    if a.size <= k:
        return a.tolist()
    return dict(shape=list(a.shape), head=a.ravel()[:k].tolist(), norm=float(np.linalg.norm(a.astype(float))))


def fmt_exc(e):
    return "%s: %s" % (type(e).__name__, str(e).replace("\n", " ")[:300])


def chunks(seq, n):
    seq = list(seq)
    k = max(1, (len(seq) + n - 1) // n)
    return [seq[i:i + k] for i in range(0, len(seq), k)]


def sprinkle_empty_columns(rng, X, frac=0.15):
    X = np.array(X, copy=True)
    p = X.shape[1]
    if p > 2:
        X[:, rng.choice(p, max(1, int(frac * p)), replace=False)] = 0.0
    return X
