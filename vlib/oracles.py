"""Oracles over one solver return: certificate, buffer conservation, finiteness, objective."""
import numpy as np
from numpy.linalg import norm

from vlib import refmath as R

SLACK = dict(
    cert_rel=1e-6,          # claimed tolerance is accepted up to tol*(1+cert_rel)
    cert_abs_rel_grad=1e-10,  # plus this * (1 + |gradient|_inf): rounding of the solver's own gradient
    conservation_rel=1e-7,  # |Xw_buf - (Xw+b)|_inf <= rel * (1 + |Xw|_inf)
    objective_rel=1e-10,
)


def cert_slack(case, coef):
    g = case.ref.gradient(coef)
    return SLACK["cert_abs_rel_grad"] * (1.0 + float(np.max(np.abs(g))) if np.size(g) else 0.0) \
        + case.ref.dot_error_bound(coef)


def model_fit(case, coef):
    w, b = case.ref.split(coef)
    return case.Xd @ w + b


def buffer_drift(case, coef, Xw_buf):
    """(abs drift, relative drift) between the solver's model-fit buffer and X w + b from the reference."""
    if Xw_buf is None:
        return None, None
    z = model_fit(case, coef)
    if np.shape(z) != np.shape(Xw_buf):
        return np.inf, np.inf
    d = R.maxdiff(Xw_buf, z)
    return d, d / (1.0 + float(np.max(np.abs(z))) if z.size else 1.0)


def cert_with_buffer(case, coef, Xw_buf):
    """Subdifferential certificate evaluated with the solver's own model-fit buffer (to separate a wrong
    stopping rule from bookkeeping drift)."""
    try:
        w, b = case.ref.split(coef)
        rg = case.ref_df.rawgrad(case.y, Xw_buf)
        g = case.Xd.T @ rg
        if case.ref_df.kind == "svc":
            g = g - 1.0
        d = case.ref_pen.dist(w, g)
        ib = float(np.max(np.abs(rg.sum(axis=0)))) if case.fit_intercept else 0.0
        return max(float(np.max(d)) if len(d) else 0.0, ib)
    except Exception:
        return None


def judge_return(case, out, tol):
    """Structured facts about one return (no verdict)."""
    f = dict(exc=None)
    if out["exc"] is not None:
        e = out["exc"]
        f["exc"] = type(e).__name__
        f["exc_msg"] = str(e).replace("\n", " ")[:300]
        return f
    w, obj, stop = out["w"], out["obj"], out["stop"]
    f["finite_w"] = bool(np.all(np.isfinite(w)))
    f["finite_obj"] = bool(np.all(np.isfinite(obj)))
    f["finite_stop"] = bool(np.isfinite(stop)) or stop == np.inf
    f["stop"] = float(stop)
    f["n_obj"] = int(len(obj))
    f["converged"] = bool(stop <= tol)
    if f["finite_w"]:
        try:
            viol, per, ib = case.certificate(w)
            f["cert"] = float(viol)
            f["cert_intercept"] = float(ib)
            f["cert_units"] = float(np.max(per)) if per is not None and len(per) else 0.0
            f["cert_slack"] = float(cert_slack(case, w))
            # a prox-gradient residual is a gradient divided by the curvature of its unit: the rounding noise of a
            # gradient (what cert_slack bounds) is amplified by 1/L_j on units of tiny scale.  Judge unit by unit.
            Ls = case.fixpoint_steps(w)
            if Ls is not None and per is not None and len(per) == len(Ls):
                with np.errstate(divide="ignore"):
                    amp = np.where(Ls > 0, 1.0 / np.maximum(Ls, 1e-300), 1.0)
                f["cert_excess"] = float(max(float(np.max(np.asarray(per) - f["cert_slack"] * np.maximum(amp, 1.0))),
                                             float(ib) - f["cert_slack"]))
        except Exception as e:
            f["cert_error"] = "%s: %s" % (type(e).__name__, e)
        try:
            f["F"] = float(case.ref.objective(w))
        except Exception:
            f["F"] = None
        if out.get("Xw_buf") is not None and case.solver_name not in ("FISTA", "LBFGS", "GramCD"):
            d, rel = buffer_drift(case, w, out["Xw_buf"])
            f["drift"] = d
            f["drift_rel"] = rel
            cb = cert_with_buffer(case, w, out["Xw_buf"]) if case.strategy == "subdiff" else None
            f["cert_buf"] = cb
    return f


def cert_violated(f, tol):
    """True when a converged return fails the reference certificate."""
    if not f.get("converged") or "cert" not in f:
        return False
    if "cert_excess" in f:
        return not R.leq(f["cert_excess"], tol * (1 + SLACK["cert_rel"]), rel=0.0)
    return not R.leq(f["cert"], tol * (1 + SLACK["cert_rel"]) + f.get("cert_slack", 0.0), rel=0.0)
