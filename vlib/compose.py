"""Catalogue of repository components and their reference-model counterparts.

`make_datafit(name, data, rng)`, `make_penalty(name, data, alpha_frac, rng, **opts)` return
(repo_instance_uncompiled, RefDatafit/RefPenalty, params dict); `compiled(obj)` compiles through the
repository's own `compiled_clone`.  Import vlib.env first.
"""
import numpy as np
from numpy.linalg import norm
import scipy.sparse as sp

from vlib import refmath as R


def _skglm():
    import skglm.datafits as D
    import skglm.penalties as P
    import skglm.solvers as S
    from skglm.experimental.sqrt_lasso import SqrtQuadratic
    from skglm.experimental.quantile_regression import Pinball
    from skglm.experimental.pdcd_ws import PDCD_WS
    from skglm.utils.jit_compilation import compiled_clone
    return D, P, S, SqrtQuadratic, Pinball, PDCD_WS, compiled_clone


def compiled(obj, to_float32=False):
    return _skglm()[-1](obj, to_float32=to_float32)


DATAFITS = ["Quadratic", "WeightedQuadratic", "Logistic", "QuadraticSVC", "Huber", "Poisson", "Gamma", "Cox",
            "QuadraticGroup", "LogisticGroup", "QuadraticMultiTask", "SqrtQuadratic", "Pinball"]
PENALTIES = ["L1", "L1_plus_L2", "WeightedL1", "MCPenalty", "WeightedMCPenalty", "SCAD", "IndicatorBox",
             "L0_5", "L2_3", "LogSumPenalty", "PositiveConstraint", "L2", "L2_1", "L2_05", "BlockMCPenalty",
             "BlockSCAD", "WeightedGroupL2", "WeightedL1GroupL2", "SLOPE"]
SOLVERS = ["AndersonCD", "ProxNewton", "GroupBCD", "GroupProxNewton", "MultiTaskBCD", "GramCD", "FISTA",
           "LBFGS", "PDCD_WS"]

SEP_PENALTIES = ["L1", "L1_plus_L2", "WeightedL1", "MCPenalty", "WeightedMCPenalty", "SCAD", "IndicatorBox",
                 "L0_5", "L2_3", "LogSumPenalty", "PositiveConstraint"]
GROUP_PENALTIES = ["WeightedGroupL2", "WeightedL1GroupL2"]
ROW_PENALTIES = ["L2_1", "L2_05", "BlockMCPenalty", "BlockSCAD"]
CONVEX_PENALTIES = ["L1", "L1_plus_L2", "WeightedL1", "IndicatorBox", "PositiveConstraint", "L2", "L2_1",
                    "WeightedGroupL2", "WeightedL1GroupL2", "SLOPE"]

DF_KIND = {"Quadratic": "quadratic", "WeightedQuadratic": "wquadratic", "Logistic": "logistic",
           "QuadraticSVC": "svc", "Huber": "huber", "Poisson": "poisson", "Gamma": "gamma", "Cox": "cox",
           "QuadraticGroup": "quadratic", "LogisticGroup": "logistic", "QuadraticMultiTask": "multitask",
           "SqrtQuadratic": "sqrtquad", "Pinball": "pinball"}

TARGET_KIND = {"Quadratic": "real", "WeightedQuadratic": "real", "Logistic": "pm1", "QuadraticSVC": "pm1",
               "Huber": "real", "Poisson": "count", "Gamma": "pos", "Cox": "surv", "QuadraticGroup": "real",
               "LogisticGroup": "pm1", "QuadraticMultiTask": "multi", "SqrtQuadratic": "real",
               "Pinball": "real"}


# ---------------------------------------------------------------------------------------
# data
# ---------------------------------------------------------------------------------------
def make_X(rng, n, p, kind="gauss", rho=0.5, density=1.0):
    if kind == "gauss":
        X = rng.standard_normal((n, p))
    elif kind == "ar":
        X = np.empty((n, p))
        u = rng.standard_normal(n)
        X[:, 0] = u
        for j in range(1, p):
            u = rho * u + np.sqrt(1 - rho ** 2) * rng.standard_normal(n)
            X[:, j] = u
    elif kind == "scaled":
        X = rng.standard_normal((n, p)) * (10.0 ** rng.uniform(-2, 2, size=p))
    elif kind == "shifted":
        X = rng.standard_normal((n, p)) + rng.uniform(-3, 3, size=p)
    elif kind == "centered":
        X = rng.standard_normal((n, p)) * (10.0 ** rng.uniform(-1, 1, size=p))
        X = X - X.mean(axis=0)          # the usual preprocessing: the optimal intercept is then the mean of the target
    elif kind == "contrast":
        # sum-to-zero contrast coding: entries in {-1, 0, 1}, every column sums to zero EXACTLY (a constant vector is in
        # the null space of X X^T: power iterations started from it never move)
        X = np.zeros((n, p))
        for j in range(p):
            k = int(rng.integers(1, max(2, n // 2)))
            idx = rng.permutation(n)[: 2 * k]
            X[idx[:k], j], X[idx[k:], j] = 1.0, -1.0
        density = 1.0
    else:
        raise KeyError(kind)
    if density < 1.0:
        X = X * (rng.random((n, p)) < density)
    if kind == "centered":
        # standardised-style designs: every column sums to zero over its support (X^T 1 = 0 up to rounding)
        for j in range(p):
            nz = X[:, j] != 0
            if nz.sum() > 1:
                X[nz, j] -= X[nz, j].mean()
    return np.asfortranarray(X)


def make_target(rng, X, kind, w_true=None, noise=0.5, n_tasks=3, ties=True, offset_scale=None, censor_all=False):
    n, p = X.shape
    if w_true is None:
        w_true = np.zeros(p)
        k = max(1, p // 4)
        w_true[rng.choice(p, k, replace=False)] = rng.standard_normal(k)
    z = X @ w_true
    sc = max(norm(z) / np.sqrt(n), 1e-3)
    if kind == "real":
        # offsets on three scales: a tiny optimal intercept (errors of its size in the model fit look like progress), an
        # ordinary one, and one that dominates the signal
        return z + noise * sc * rng.standard_normal(n) + rng.uniform(-1, 1) * (
            float(rng.choice([0.005, 0.05, 1.0, 1.0, 10.0])) if offset_scale is None else float(offset_scale))
    if kind == "pm1":
        y = np.sign(z / sc + noise * rng.standard_normal(n))
        y[y == 0] = 1.0
        if abs(y.sum()) == n:
            y[: n // 2] *= -1
        return y
    if kind == "count":
        return rng.poisson(np.exp(np.clip(z / sc * 0.5, -3, 3))).astype(float)
    if kind == "pos":
        return np.exp(np.clip(z / sc * 0.5, -3, 3)) * rng.gamma(2.0, 0.5, size=n) + 1e-3
    if kind == "surv":
        if ties == "nonadjacent":
            # tied event times that never sit in consecutive rows: 1, 2, ..., k, 1, 2, ..., k, ...
            k = max(2, n // 3)
            tm = (np.arange(n) % k + 1).astype(float)
        elif ties:
            tm = rng.integers(1, max(3, n // 4), size=n).astype(float)
        else:
            tm = rng.weibull(1.0, size=n) + 1e-3 * np.arange(n)
        s = (rng.random(n) < 0.7).astype(float)
        if s.sum() == 0:
            s[0] = 1.0
        if censor_all:
            s[:] = 0.0          # a study window without a single event: the partial likelihood is identically zero
        return np.asfortranarray(np.column_stack([tm, s]))
    if kind == "multi":
        W = np.zeros((p, n_tasks))
        k = max(1, p // 4)
        W[rng.choice(p, k, replace=False)] = rng.standard_normal((k, n_tasks))
        Z = X @ W
        return np.asfortranarray(Z + noise * max(norm(Z) / np.sqrt(Z.size), 1e-3) * rng.standard_normal(Z.shape)
                                 + rng.uniform(-1, 1, size=n_tasks) * (
                                     float(rng.choice([0.005, 0.05, 1.0, 1.0, 10.0])) if offset_scale is None
                                     else float(offset_scale)))
    raise KeyError(kind)


def make_groups(rng, p, style="contig"):
    """list of index arrays partitioning range(p)."""
    if p == 1:
        return [np.array([0])]
    if style == "singletons_rev":
        return [np.array([j]) for j in range(p - 1, -1, -1)]      # as many groups as features, listed in reverse order
    sizes = []
    left = p
    while left > 0:
        s = int(min(left, rng.integers(1, 5)))
        sizes.append(s)
        left -= s
    if style == "trap" and p >= 6:
        # unsorted, non-adjacent groups whose first and last entries span exactly their length ([a, far, a + 2]):
        # "is this index list a contiguous block?" shortcuts that only look at the end points get them wrong
        a = int(rng.integers(0, p - 3))
        far = int(rng.choice([j for j in range(p) if j < a or j > a + 2]))
        first = np.array([a, far, a + 2])
        rest = np.array([j for j in rng.permutation(p) if j not in set(first.tolist())])
        out, k = [first], 0
        while k < len(rest):
            sz = int(min(len(rest) - k, rng.integers(1, 4)))
            out.append(rest[k:k + sz])
            k += sz
        return out
    idx = np.arange(p) if style == "contig" else rng.permutation(p)
    out, k = [], 0
    for s in sizes:
        out.append(np.sort(idx[k:k + s]) if style == "contig" else idx[k:k + s])
        k += s
    return out


def groups_to_ptr(groups):
    ptr = np.cumsum([0] + [len(g) for g in groups]).astype(np.int32)
    ind = np.concatenate(groups).astype(np.int32)
    return ptr, ind


# ---------------------------------------------------------------------------------------
# datafits
# ---------------------------------------------------------------------------------------
def make_datafit(name, rng, n, groups=None, **o):
    D, P, S, SqrtQuadratic, Pinball, PDCD_WS, cc = _skglm()
    kind = DF_KIND[name]
    if name == "Quadratic":
        return D.Quadratic(), R.RefDatafit(kind), {}
    if name == "WeightedQuadratic":
        sw = o.get("sw")
        if sw is None:
            sw = rng.uniform(0.2, 3.0, size=n)
        return D.WeightedQuadratic(np.asarray(sw, float)), R.RefDatafit(kind, sw=np.asarray(sw, float)), {"sw": sw}
    if name == "Logistic":
        return D.Logistic(), R.RefDatafit(kind), {}
    if name == "QuadraticSVC":
        return D.QuadraticSVC(), R.RefDatafit(kind), {}
    if name == "Huber":
        delta = o.get("delta", float(rng.uniform(0.3, 2.0)))
        return D.Huber(delta), R.RefDatafit(kind, delta=delta), {"delta": delta}
    if name == "Poisson":
        return D.Poisson(), R.RefDatafit(kind), {}
    if name == "Gamma":
        return D.Gamma(), R.RefDatafit(kind), {}
    if name == "Cox":
        ef = bool(o.get("efron", rng.integers(0, 2)))
        return D.Cox(ef), R.RefDatafit(kind, efron=ef), {"efron": ef}
    if name == "QuadraticGroup":
        ptr, ind = groups_to_ptr(groups)
        return D.QuadraticGroup(ptr, ind), R.RefDatafit(kind), {}
    if name == "LogisticGroup":
        ptr, ind = groups_to_ptr(groups)
        return D.LogisticGroup(ptr, ind), R.RefDatafit(kind), {}
    if name == "QuadraticMultiTask":
        return D.QuadraticMultiTask(), R.RefDatafit(kind), {}
    if name == "SqrtQuadratic":
        return SqrtQuadratic(), R.RefDatafit(kind), {}
    if name == "Pinball":
        q = o.get("q", float(rng.choice([0.3, 0.5, 0.8])))
        return Pinball(q), R.RefDatafit(kind, q=q), {"q": q}
    raise KeyError(name)


# ---------------------------------------------------------------------------------------
# penalties
# ---------------------------------------------------------------------------------------
def make_penalty(name, rng, p, alpha, groups=None, positive=False, n_tasks=None, **o):
    """alpha is the actual strength (caller derives it from a critical value)."""
    D, P, S, SqrtQuadratic, Pinball, PDCD_WS, cc = _skglm()
    prm = {"alpha": float(alpha)}
    if name == "L1":
        prm["positive"] = positive
        return P.L1(alpha, positive), R.RefPenalty("l1", alpha=alpha, positive=positive), prm
    if name == "L1_plus_L2":
        r = float(o.get("l1_ratio", rng.choice([0.1, 0.5, 0.9])))
        prm.update(l1_ratio=r, positive=positive)
        return P.L1_plus_L2(alpha, r, positive), R.RefPenalty("enet", alpha=alpha, l1_ratio=r, positive=positive), prm
    if name == "WeightedL1":
        wts = o.get("weights")
        if wts is None:
            wts = rng.uniform(0.3, 2.0, size=p)
            if o.get("zero_weights", False) and p > 1:
                wts[rng.choice(p, max(1, p // 6), replace=False)] = 0.0
        prm.update(weights=wts, positive=positive)
        return (P.WeightedL1(alpha, np.asarray(wts, float), positive),
                R.RefPenalty("wl1", alpha=alpha, weights=np.asarray(wts, float), positive=positive), prm)
    if name == "MCPenalty":
        g = float(o.get("gamma", rng.uniform(2.5, 5.0)))
        prm.update(gamma=g, positive=positive)
        return P.MCPenalty(alpha, g, positive), R.RefPenalty("mcp", alpha=alpha, gamma=g, positive=positive), prm
    if name == "WeightedMCPenalty":
        g = float(o.get("gamma", rng.uniform(2.5, 5.0)))
        wts = o.get("weights")
        if wts is None:
            wts = rng.uniform(0.3, 1.0, size=p)
        prm.update(gamma=g, weights=wts, positive=positive)
        return (P.WeightedMCPenalty(alpha, g, np.asarray(wts, float), positive),
                R.RefPenalty("wmcp", alpha=alpha, gamma=g, weights=np.asarray(wts, float), positive=positive), prm)
    if name == "SCAD":
        g = float(o.get("gamma", rng.uniform(3.0, 5.0)))
        prm.update(gamma=g)
        return P.SCAD(alpha, g), R.RefPenalty("scad", alpha=alpha, gamma=g), prm
    if name == "IndicatorBox":
        return P.IndicatorBox(alpha), R.RefPenalty("box", alpha=alpha), prm
    if name == "L0_5":
        return P.L0_5(alpha), R.RefPenalty("l05", alpha=alpha), prm
    if name == "L2_3":
        return P.L2_3(alpha), R.RefPenalty("l23", alpha=alpha), prm
    if name == "LogSumPenalty":
        eps = float(o.get("eps", rng.uniform(0.5, 2.0)))
        prm.update(eps=eps)
        return P.LogSumPenalty(alpha, eps), R.RefPenalty("logsum", alpha=alpha, eps=eps), prm
    if name == "PositiveConstraint":
        return P.PositiveConstraint(), R.RefPenalty("pos"), {}
    if name == "L2":
        return P.L2(alpha), R.RefPenalty("l2", alpha=alpha), prm
    if name == "L2_1":
        return P.L2_1(alpha), R.RefPenalty("l21", alpha=alpha), prm
    if name == "L2_05":
        return P.L2_05(alpha), R.RefPenalty("l2_05", alpha=alpha), prm
    if name == "BlockMCPenalty":
        g = float(o.get("gamma", rng.uniform(2.5, 5.0)))
        prm.update(gamma=g)
        return P.BlockMCPenalty(alpha, g), R.RefPenalty("bmcp", alpha=alpha, gamma=g), prm
    if name == "BlockSCAD":
        g = float(o.get("gamma", rng.uniform(3.0, 5.0)))
        prm.update(gamma=g)
        return P.BlockSCAD(alpha, g), R.RefPenalty("bscad", alpha=alpha, gamma=g), prm
    if name == "WeightedGroupL2":
        ptr, ind = groups_to_ptr(groups)
        wts = o.get("weights")
        if wts is None:
            wts = rng.uniform(0.5, 2.0, size=len(groups))
            if o.get("zero_weights", False) and len(groups) > 1:
                wts[rng.choice(len(groups), max(1, len(groups) // 4), replace=False)] = 0.0     # unpenalised groups
            for u in o.get("null_units", []):
                wts[u] = 0.0
        prm.update(weights=wts, positive=positive)
        return (P.WeightedGroupL2(alpha, np.asarray(wts, float), ptr, ind, positive),
                R.RefPenalty("group", alpha=alpha, weights=np.asarray(wts, float), groups=groups, positive=positive),
                prm)
    if name == "WeightedL1GroupL2":
        ptr, ind = groups_to_ptr(groups)
        wg = o.get("weights_groups")
        wf = o.get("weights_features")
        if wg is None:
            wg = rng.uniform(0.5, 2.0, size=len(groups))
        if wf is None:
            wf = rng.uniform(0.1, 1.0, size=p)
        prm.update(weights_groups=wg, weights_features=wf)
        return (P.WeightedL1GroupL2(alpha, np.asarray(wg, float), np.asarray(wf, float), ptr, ind),
                R.RefPenalty("sgroup", alpha=alpha, weights_groups=np.asarray(wg, float),
                             weights_features=np.asarray(wf, float), groups=groups), prm)
    if name == "SLOPE":
        al = o.get("alphas")
        if al is None:
            al = alpha * np.sort(rng.uniform(0.5, 1.5, size=p))[::-1]
        al = np.ascontiguousarray(al, float)
        return P.SLOPE(al), R.RefPenalty("slope", alphas=al), {"alphas": al}
    raise KeyError(name)


def make_solver(name, **kw):
    D, P, S, SqrtQuadratic, Pinball, PDCD_WS, cc = _skglm()
    if name == "PDCD_WS":
        return PDCD_WS(**kw)
    return getattr(S, name)(**kw)


# ---------------------------------------------------------------------------------------
# critical regularisation strength from the reference model (used to scale alpha)
# ---------------------------------------------------------------------------------------
def ref_alpha_scale(X, y, refdf, fit_intercept=False):
    """max |grad_j| at the null model (w=0, b=argmin) computed by the reference model; robust fallback 1."""
    Xd = X.toarray() if sp.issparse(X) else np.asarray(X, float)
    p = Xd.shape[1]
    try:
        if refdf.kind == "multitask":
            b = y.mean(axis=0) if fit_intercept else np.zeros(y.shape[1])
            g = refdf.grad_w(Xd, y, np.zeros((p, y.shape[1])), b)
            v = float(np.max(norm(g, axis=1)))
        elif refdf.kind == "pinball":
            v = float(np.max(np.abs(Xd.T @ np.where(y >= np.median(y), refdf.p["q"], refdf.p["q"] - 1))))
        else:
            b = null_intercept(refdf, Xd, y) if fit_intercept else 0.0
            g = refdf.grad_w(Xd, y, np.zeros(p), b)
            v = float(np.max(np.abs(g)))
    except Exception:
        v = 1.0
    # a (numerically) zero null-model gradient (constant / zero targets) would make alpha ~ 1e-17, i.e. an
    # effectively unpenalised problem: fall back to a unit scale
    floor = 1e-9 * (1.0 + float(np.max(np.abs(Xd))) * float(np.max(np.abs(np.asarray(y, float)))) if np.size(y) else 1.0)
    return v if np.isfinite(v) and v > floor else 1.0


def null_intercept(refdf, Xd, y, iters=60):
    """argmin_b loss(y, b) by safeguarded Newton/bisection on the reference gradient."""
    n, p = Xd.shape
    k = refdf.kind
    if k in ("quadratic", "huber") and k == "quadratic":
        return float(np.mean(y))
    if k == "wquadratic":
        sw = refdf.p["sw"]
        return float(np.sum(sw * y) / sw.sum())
    f = lambda b: float(np.sum(refdf.rawgrad(y, np.full(n, b))))  # noqa
    lo, hi = -50.0, 50.0
    if k in ("quadratic", "huber"):
        lo, hi = float(np.min(y)) - 1, float(np.max(y)) + 1
    flo, fhi = f(lo), f(hi)
    if not (flo <= 0 <= fhi):
        return 0.0
    for _ in range(200):
        mid = 0.5 * (lo + hi)
        if f(mid) > 0:
            hi = mid
        else:
            lo = mid
    return 0.5 * (lo + hi)


def to_storage(X, storage):
    """dense F-order | csc | csc_unsorted | csc_i64"""
    if storage == "dense":
        return np.asfortranarray(X)
    Xs = sp.csc_matrix(X)
    if storage == "csc":
        Xs.sort_indices()
        return Xs
    if storage == "csc_unsorted":
        Xs.sort_indices()
        data, ind, ptr = Xs.data.copy(), Xs.indices.copy(), Xs.indptr
        for j in range(Xs.shape[1]):
            sl = slice(ptr[j], ptr[j + 1])
            data[sl] = data[sl][::-1]
            ind[sl] = ind[sl][::-1]
        out = sp.csc_matrix((data, ind, ptr.copy()), shape=Xs.shape)
        out.has_sorted_indices = False
        return out
    if storage == "csc_explicit0":
        # CSC that stores every entry of each column explicitly, zeros included (what masking X.data in place, or
        # arithmetic on a sparse matrix without eliminate_zeros(), leaves behind)
        Xd = np.asarray(X, float)
        n, p = Xd.shape
        data = Xd.T.ravel().copy()
        indices = np.tile(np.arange(n, dtype=np.int32), p)
        indptr = (np.arange(p + 1) * n).astype(np.int32)
        out = sp.csc_matrix((data, indices, indptr), shape=(n, p))
        return out
    raise KeyError(storage)
