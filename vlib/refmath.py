"""Reference model (numpy only): documented losses, penalties, subdifferentials, proxes.

Written from class docstrings / doc tutorials / textbook definitions, never from repository formulas.
Everything is float64 and unoptimised on purpose (explicit loops where that is the clearest form).
"""
import math
import numpy as np
from numpy.linalg import norm

INF = np.inf


# =====================================================================================
# inf-safe comparison helpers
# =====================================================================================
def close(a, b, rel=1e-9, abs_=0.0):
    """Closeness for scalars/arrays with explicit non-finite handling: NaN is never close to anything, infinities must
    match exactly (sign included), finite entries within abs_ + rel * (1 + |b|)."""
    a = np.asarray(a, dtype=float)
    b = np.asarray(b, dtype=float)
    if a.shape != b.shape:
        return False
    if np.isnan(a).any() or np.isnan(b).any():
        return False
    fa, fb = np.isfinite(a), np.isfinite(b)
    if not np.array_equal(fa, fb) or not np.array_equal(a[~fa], b[~fb]):
        return False
    return bool(np.all(np.abs(a[fa] - b[fb]) <= abs_ + rel * (1.0 + np.abs(b[fb]))))


def maxdiff(a, b):
    """max |a-b| over finite entries, inf if finiteness pattern or inf signs differ / any nan."""
    a = np.asarray(a, dtype=float)
    b = np.asarray(b, dtype=float)
    if a.shape != b.shape:
        return INF
    if np.isnan(a).any() or np.isnan(b).any():
        return INF
    fa, fb = np.isfinite(a), np.isfinite(b)
    if not np.array_equal(fa, fb) or not np.array_equal(a[~fa], b[~fb]):
        return INF
    if not fa.any():
        return 0.0
    return float(np.max(np.abs(a[fa] - b[fb])))


def leq(a, b, rel=1e-9, abs_=0.0):
    """a <= b + slack with explicit non-finite handling (a = +inf or nan is never <= finite b)."""
    a = float(a)
    b = float(b)
    if math.isnan(a) or math.isnan(b):
        return False
    if a == INF:
        return b == INF
    if b == INF:
        return True
    if a == -INF:
        return True
    if b == -INF:
        return False
    return a <= b + abs_ + rel * (1.0 + abs(b))


# =====================================================================================
# datafits: loss as a function of the linear predictor z (and y); raw gradient; raw hessian
# =====================================================================================
def _cox_sets(tm, s):
    tm = np.asarray(tm, float)
    s = np.asarray(s, float)
    n = len(tm)
    return tm, s, n


def cox_loss(y, z, efron):
    """Negative partial log-likelihood / n (Breslow, or Efron for ties); O(n^2) textbook form."""
    tm, s, n = _cox_sets(y[:, 0], y[:, 1])
    e = np.exp(z)
    tot = 0.0
    if not efron:
        for i in range(n):
            if s[i] != 0:
                risk = e[tm >= tm[i]].sum()
                tot += -z[i] + math.log(risk)
        return tot / n
    for t in np.unique(tm[s != 0]):
        H = np.where((tm == t) & (s != 0))[0]
        d = len(H)
        risk = e[tm >= t].sum()
        tied = e[H].sum()
        tot += -z[H].sum()
        for l in range(d):
            tot += math.log(risk - (l / d) * tied)
    return tot / n


def cox_rawgrad(y, z, efron):
    tm, s, n = _cox_sets(y[:, 0], y[:, 1])
    e = np.exp(z)
    g = np.zeros(n)
    if not efron:
        for i in range(n):
            if s[i] != 0:
                R = tm >= tm[i]
                g[i] -= 1.0
                g[R] += e[R] / e[R].sum()
        return g / n
    for t in np.unique(tm[s != 0]):
        Hm = (tm == t) & (s != 0)
        H = np.where(Hm)[0]
        d = len(H)
        R = tm >= t
        risk = e[R].sum()
        tied = e[H].sum()
        g[H] -= 1.0
        for l in range(d):
            den = risk - (l / d) * tied
            g[R] += e[R] / den
            g[H] -= (l / d) * e[H] / den
    return g / n


def cox_hess(y, z, efron):
    """Full n x n Hessian wrt z (for the diagonal-bound test), by differentiating cox_rawgrad analytically
    via central differences of the analytic gradient (h chosen for ~1e-7 accuracy)."""
    n = len(z)
    H = np.zeros((n, n))
    h = 1e-5
    for k in range(n):
        zp = z.copy()
        zm = z.copy()
        zp[k] += h
        zm[k] -= h
        H[:, k] = (cox_rawgrad(y, zp, efron) - cox_rawgrad(y, zm, efron)) / (2 * h)
    return 0.5 * (H + H.T)


class RefDatafit:
    """kind in: quadratic, wquadratic, logistic, svc, huber, poisson, gamma, cox, sqrtquad, pinball,
    multitask (quadratic, matrix-valued)."""

    def __init__(self, kind, **p):
        self.kind = kind
        self.p = p

    # ---- value -------------------------------------------------------------------------
    def value(self, y, z, w=None):
        k, p = self.kind, self.p
        if k == "multitask":
            return float(np.sum((y - z) ** 2) / (2 * y.shape[0]))
        n = len(z)
        if k == "quadratic":
            return float(np.sum((y - z) ** 2) / (2 * n))
        if k == "wquadratic":
            sw = p["sw"]
            return float(np.sum(sw * (y - z) ** 2) / (2 * sw.sum()))
        if k == "logistic":
            return float(np.sum(np.logaddexp(0.0, -y * z)) / n)
        if k == "svc":
            # dual SVC: 1/2 ||(yX)^T w||^2 - sum(w); z = (yX)^T w
            return float(0.5 * np.sum(z ** 2) - np.sum(w))
        if k == "huber":
            d = p["delta"]
            r = np.abs(y - z)
            return float(np.sum(np.where(r <= d, 0.5 * r ** 2, d * r - 0.5 * d ** 2)) / n)
        if k == "poisson":
            return float(np.sum(np.exp(z) - y * z) / n)
        if k == "gamma":
            return float(np.sum(z + y * np.exp(-z) - 1.0 - np.log(y)) / n)
        if k == "cox":
            return float(cox_loss(y, z, p.get("efron", False)))
        if k == "sqrtquad":
            return float(norm(y - z))
        if k == "pinball":
            q = p["q"]
            r = y - z
            return float(np.sum(q * np.maximum(r, 0) + (1 - q) * np.maximum(-r, 0)))
        raise KeyError(k)

    # ---- gradient wrt z ----------------------------------------------------------------
    def rawgrad(self, y, z):
        k, p = self.kind, self.p
        if k == "multitask":
            return (z - y) / y.shape[0]
        n = len(z)
        if k == "quadratic":
            return (z - y) / n
        if k == "wquadratic":
            sw = p["sw"]
            return sw * (z - y) / sw.sum()
        if k == "logistic":
            from scipy.special import expit
            return -y * expit(-y * z) / n
        if k == "svc":
            return z.copy()
        if k == "huber":
            d = p["delta"]
            r = y - z
            return -np.clip(r, -d, d) / n
        if k == "poisson":
            return (np.exp(z) - y) / n
        if k == "gamma":
            return (1.0 - y * np.exp(-z)) / n
        if k == "cox":
            return cox_rawgrad(y, z, p.get("efron", False))
        if k == "sqrtquad":
            r = z - y
            return r / norm(r)
        raise KeyError(k)

    # ---- diagonal of the Hessian wrt z (separable losses), or full matrix -----------------
    def rawhess_diag(self, y, z):
        k, p = self.kind, self.p
        n = len(z)
        if k == "quadratic":
            return np.full(n, 1.0 / n)
        if k == "wquadratic":
            return p["sw"] / p["sw"].sum()
        if k == "logistic":
            from scipy.special import expit
            s = expit(y * z)
            return (y ** 2) * s * (1 - s) / n
        if k == "huber":
            return (np.abs(y - z) <= p["delta"]).astype(float) / n
        if k == "poisson":
            return np.exp(z) / n
        if k == "gamma":
            return y * np.exp(-z) / n
        if k == "sqrtquad":
            # diagonal upper bound of I/|r| - r r^T/|r|^3
            return np.full(n, 1.0 / norm(y - z))
        if k == "cox":
            # documented diagonal upper bound: diag(e^u) diag(M^T s/(M e^u)) / n = raw gradient + s / n
            return cox_rawgrad(y, z, p.get("efron", False)) + np.asarray(y[:, 1], float) / n
        raise KeyError(k)

    def rawhess_full(self, y, z):
        k = self.kind
        if k == "cox":
            return cox_hess(y, z, self.p.get("efron", False))
        if k == "sqrtquad":
            r = z - y
            nr = norm(r)
            return np.eye(len(z)) / nr - np.outer(r, r) / nr ** 3
        return np.diag(self.rawhess_diag(y, z))

    # ---- curvature supremum per sample (for Lipschitz constants) ------------------------------
    def curv_sup(self, y, n):
        k, p = self.kind, self.p
        if k in ("quadratic", "huber", "multitask"):
            return np.full(n, 1.0 / n)
        if k == "wquadratic":
            return p["sw"] / p["sw"].sum()
        if k == "logistic":
            return np.full(n, 1.0 / (4 * n))
        if k == "svc":
            return np.ones(n)
        return None

    # ---- gradient wrt coefficients / intercept ------------------------------------------------
    def grad_w(self, X, y, w, b=0.0):
        z = X @ w + b
        g = X.T @ self.rawgrad(y, z)
        if self.kind == "svc":
            g = g - 1.0
        return np.asarray(g)

    def grad_b(self, X, y, w, b=0.0):
        z = X @ w + b
        r = self.rawgrad(y, z)
        return r.sum(axis=0)

    def full_value(self, X, y, w, b=0.0):
        z = X @ w + b
        return self.value(y, z, w)


# =====================================================================================
# penalties
# =====================================================================================
def _dist_interval(v, lo, hi):
    return np.maximum(0.0, np.maximum(lo - v, v - hi))


def pen_elem(kind, u, **p):
    """Elementwise penalty value of scalars u (vectorised); +inf outside constraints."""
    u = np.asarray(u, float)
    a = p.get("alpha", 1.0)
    wt = p.get("weight", 1.0)
    au = np.abs(u)
    if kind in ("l1", "wl1"):
        v = a * wt * au
    elif kind == "enet":
        r = p["l1_ratio"]
        v = a * r * au + a * (1 - r) / 2 * u ** 2
    elif kind in ("mcp", "wmcp"):
        g = p["gamma"]
        v = wt * np.where(au <= a * g, a * au - au ** 2 / (2 * g), g * a ** 2 / 2)
    elif kind == "scad":
        g = p["gamma"]
        v = np.where(au <= a, a * au,
                     np.where(au <= a * g, (2 * g * a * au - au ** 2 - a ** 2) / (2 * (g - 1)),
                              a ** 2 * (g + 1) / 2))
    elif kind == "box":
        v = np.where((u >= 0) & (u <= a), 0.0, INF)
    elif kind == "pos":
        v = np.where(u >= 0, 0.0, INF)
    elif kind == "l05":
        v = a * np.sqrt(au)
    elif kind == "l23":
        v = a * au ** (2.0 / 3.0)
    elif kind == "logsum":
        v = a * np.log1p(au / p["eps"])
    elif kind == "l2":
        v = a * u ** 2 / 2
    else:
        raise KeyError(kind)
    if p.get("positive", False):
        v = np.where(u < 0, INF, v)
    return v


def pen_deriv(kind, u, **p):
    """derivative of the scalar penalty t -> pen(t) at t = |u| > 0 (for the weakly convex / non-convex kinds)."""
    a = p.get("alpha", 1.0)
    wt = p.get("weight", 1.0)
    t = abs(float(u))
    if kind in ("l1", "wl1"):
        return a * wt
    if kind in ("mcp", "wmcp", "bmcp"):
        g = p["gamma"]
        return wt * (a - t / g) if t < a * g else 0.0
    if kind in ("scad", "bscad"):
        g = p["gamma"]
        return a if t <= a else ((a * g - t) / (g - 1) if t <= a * g else 0.0)
    if kind in ("l05", "l2_05"):
        return a / (2 * math.sqrt(t))
    if kind == "l23":
        return a * 2 / (3 * t ** (1.0 / 3.0))
    if kind == "logsum":
        return a / (p["eps"] + t)
    if kind == "l21":
        return a
    raise KeyError(kind)


def polish_stationary(kind, u, x, s, width, **p):
    """Refine a non-zero brute-force minimiser u of 0.5 (u - x)^2 + s pen(|u|) to machine precision by bisection
    on the stationarity function h(t) = t - |x| + s pen'(t) around |u| (same smooth branch)."""
    t0, ax = abs(u), abs(x)
    if t0 == 0 or t0 == ax:
        return u
    h = lambda t: t - ax + s * pen_deriv(kind, t, **p)  # noqa
    lo, hi = max(t0 - width, t0 * 0.5, 1e-300), min(t0 + width, ax)
    try:
        hl, hh = h(lo), h(hi)
    except Exception:
        return u
    if not (hl < 0 < hh):
        return u
    for _ in range(200):
        mid = 0.5 * (lo + hi)
        if h(mid) < 0:
            lo = mid
        else:
            hi = mid
    return math.copysign(0.5 * (lo + hi), x)


def pen_radial(kind, r, **p):
    """Block penalties as functions of the row/group norm r >= 0."""
    a = p.get("alpha", 1.0)
    r = np.asarray(r, float)
    if kind == "l21":
        return a * r
    if kind == "l2_05":
        return a * np.sqrt(r)
    if kind == "bmcp":
        return pen_elem("mcp", r, alpha=a, gamma=p["gamma"])
    if kind == "bscad":
        return pen_elem("scad", r, alpha=a, gamma=p["gamma"])
    raise KeyError(kind)


class RefPenalty:
    """Separable kinds: l1, wl1, enet, mcp, wmcp, scad, box, pos, l05, l23, logsum, l2
    Group kinds: group (weighted group l2 [+positive]), sgroup (weighted l1 + group l2)
    Row kinds (multitask): l21, l2_05, bmcp, bscad
    Non separable: slope
    """
    SEP = ("l1", "wl1", "enet", "mcp", "wmcp", "scad", "box", "pos", "l05", "l23", "logsum", "l2")
    GRP = ("group", "sgroup")
    ROW = ("l21", "l2_05", "bmcp", "bscad")

    def __init__(self, kind, **p):
        self.kind = kind
        self.p = p

    @property
    def convex(self):
        return self.kind in ("l1", "wl1", "enet", "box", "pos", "l2", "group", "sgroup", "l21", "slope")

    def admissible_step(self, s, j=None):
        """step range in which the prox objective of a weakly convex penalty is strictly convex."""
        k, p = self.kind, self.p
        if k in ("mcp", "wmcp", "bmcp"):
            wt = 1.0
            if k == "wmcp":
                wt = float(np.asarray(p["weights"], float)[j]) if j is not None else float(np.max(p["weights"]))
            return s * wt < p["gamma"] * (1 - 1e-9)
        if k in ("scad", "bscad"):
            return s < (p["gamma"] - 1) * (1 - 1e-9)
        return True

    def _ep(self, j=None):
        """Elementwise params for coordinate(s) j (weights resolved)."""
        p = dict(self.p)
        if "weights" in p:
            wts = np.asarray(p.pop("weights"), float)
            p["weight"] = wts if j is None else wts[j]
        return p

    # ---- value -------------------------------------------------------------------------
    def value(self, w):
        k, p = self.kind, self.p
        w = np.asarray(w, float)
        if k in self.SEP:
            return float(np.sum(pen_elem(k, w, **self._ep())))
        if k == "group":
            if p.get("positive", False) and np.any(w < 0):
                return INF
            return float(p["alpha"] * sum(p["weights"][g] * norm(w[G]) for g, G in enumerate(p["groups"])))
        if k == "sgroup":
            v = sum(p["weights_groups"][g] * norm(w[G]) for g, G in enumerate(p["groups"]))
            v += np.sum(np.asarray(p["weights_features"]) * np.abs(w))
            return float(p["alpha"] * v)
        if k in self.ROW:
            return float(np.sum(pen_radial(k, norm(w, axis=1), **p)))
        if k == "slope":
            al = np.asarray(p["alphas"], float)
            return float(np.sum(np.sort(np.abs(w))[::-1] * al))
        raise KeyError(k)

    def n_units(self, w):
        if self.kind in self.GRP:
            return len(self.p["groups"])
        return w.shape[0]

    def is_penalized(self, n):
        if self.kind in ("wl1",):
            return np.asarray(self.p["weights"]) != 0
        return np.ones(n, bool)

    # ---- distance of -g to the regular subdifferential, per unit --------------------------
    def dist(self, w, g):
        k, p = self.kind, self.p
        w = np.asarray(w, float)
        g = np.asarray(g, float)
        v = -g
        if k in self.SEP:
            return self._dist_sep(w, v)
        if k == "group":
            out = np.zeros(len(p["groups"]))
            pos = p.get("positive", False)
            for gi, G in enumerate(p["groups"]):
                wg, vg = w[G], v[G]
                lam = p["alpha"] * p["weights"][gi]
                if pos and np.any(wg < 0):
                    out[gi] = INF
                    continue
                nw = norm(wg)
                if nw == 0:
                    vv = np.maximum(vg, 0) if pos else vg
                    out[gi] = max(0.0, norm(vv) - lam)
                else:
                    r = vg - lam * wg / nw
                    if pos:
                        r = np.where(wg > 0, r, np.maximum(r, 0))
                    out[gi] = norm(r)
            return out
        if k == "sgroup":
            out = np.zeros(len(p["groups"]))
            wf = np.asarray(p["weights_features"], float)
            for gi, G in enumerate(p["groups"]):
                wg, vg = w[G], v[G]
                lam = p["alpha"] * p["weights_groups"][gi]
                l1 = p["alpha"] * wf[G]
                nw = norm(wg)
                if nw == 0:
                    # subdiff = lam * ball + box(l1): distance to a Minkowski sum
                    out[gi] = max(0.0, norm(np.sign(vg) * np.maximum(np.abs(vg) - l1, 0)) - lam)
                else:
                    c = lam * wg / nw
                    lo = np.where(wg == 0, c - l1, c + l1 * np.sign(wg))
                    hi = np.where(wg == 0, c + l1, c + l1 * np.sign(wg))
                    out[gi] = norm(_dist_interval(vg, lo, hi))
            return out
        if k in self.ROW:
            a = p["alpha"]
            nr = norm(w, axis=1)
            out = np.zeros(w.shape[0])
            for j in range(w.shape[0]):
                r = nr[j]
                if r == 0:
                    if k == "l2_05":
                        out[j] = 0.0
                    else:
                        out[j] = max(0.0, norm(v[j]) - a)
                    continue
                if k == "l21":
                    d = a
                elif k == "l2_05":
                    d = a / (2 * math.sqrt(r))
                elif k == "bmcp":
                    d = a - r / p["gamma"] if r < a * p["gamma"] else 0.0
                elif k == "bscad":
                    gam = p["gamma"]
                    d = a if r <= a else ((a * gam - r) / (gam - 1) if r <= a * gam else 0.0)
                out[j] = norm(v[j] - d * w[j] / r)
            return out
        raise KeyError(k)

    def _dist_sep(self, w, v):
        k = self.kind
        p = self._ep()
        a = p.get("alpha", 1.0)
        wt = p.get("weight", 1.0)
        pos = p.get("positive", False)
        z = (w == 0)
        sg = np.sign(w)
        aw = np.abs(w)
        if k in ("l1", "wl1", "enet"):
            r = p.get("l1_ratio", 1.0) if k == "enet" else 1.0
            l1 = a * wt * r * np.ones_like(w)
            l2 = a * (1 - r) if k == "enet" else 0.0
            lo = np.where(z, np.where(pos, -INF, -l1), l1 * sg + l2 * w)
            hi = np.where(z, l1, l1 * sg + l2 * w)
        elif k in ("mcp", "wmcp"):
            g = p["gamma"]
            d = np.where(aw < a * g, wt * (a * sg - w / g), 0.0) * np.ones_like(w)
            l0 = a * wt * np.ones_like(w)
            lo = np.where(z, np.where(pos, -INF, -l0), d)
            hi = np.where(z, l0, d)
        elif k == "scad":
            g = p["gamma"]
            d = np.where(aw <= a, a * sg, np.where(aw <= a * g, (a * g * sg - w) / (g - 1), 0.0))
            lo = np.where(z, -a, d)
            hi = np.where(z, a, d)
        elif k == "box":
            lo = np.where(w <= 0, -INF, 0.0)
            hi = np.where(w >= a, INF, 0.0)
            out = _dist_interval(v, lo, hi)
            return np.where((w < 0) | (w > a), INF, out)
        elif k == "pos":
            lo = np.where(z, -INF, 0.0)
            hi = np.zeros_like(w)
            return np.where(w < 0, INF, _dist_interval(v, lo, hi))
        elif k == "l05":
            d = a * sg / (2 * np.sqrt(aw + z))
            return np.where(z, 0.0, np.abs(v - d))
        elif k == "l23":
            d = a * sg * 2 / (3 * np.cbrt(aw + z))
            return np.where(z, 0.0, np.abs(v - d))
        elif k == "logsum":
            e = p["eps"]
            d = a * sg / (e + aw)
            lo = np.where(z, -a / e, d)
            hi = np.where(z, a / e, d)
        elif k == "l2":
            return np.abs(v - a * w)
        else:
            raise KeyError(k)
        out = _dist_interval(v, lo, hi)
        if pos:
            out = np.where(w < 0, INF, out)
        return out

    # ---- prox: global minimiser(s) ------------------------------------------------------------
    def prox_obj_1d(self, u, x, s, j=None):
        return 0.5 * (np.asarray(u, float) - x) ** 2 + s * pen_elem(self.kind, u, **self._ep(j))

    def prox_1d(self, x, s, j=None):
        """(argmin, min value) of u -> 0.5 (u-x)^2 + s pen_j(u): closed forms when convex,
        brute-force otherwise."""
        k = self.kind
        p = self._ep(j)
        a = p.get("alpha", 1.0)
        wt = p.get("weight", 1.0)
        pos = p.get("positive", False)
        if k in ("l1", "wl1", "enet"):
            r = p.get("l1_ratio", 1.0) if k == "enet" else 1.0
            t = s * a * wt * r
            u = math.copysign(max(abs(x) - t, 0.0), x)
            if pos and u < 0:
                u = 0.0
            if k == "enet":
                u = u / (1 + s * a * (1 - r))
            return u, float(self.prox_obj_1d(u, x, s, j))
        if k == "box":
            u = min(max(x, 0.0), a)
            return u, 0.5 * (u - x) ** 2
        if k == "pos":
            u = max(x, 0.0)
            return u, 0.5 * (u - x) ** 2
        if k == "l2":
            u = x / (1 + s * a)
            return u, float(self.prox_obj_1d(u, x, s, j))
        u, v = brute_prox_1d(lambda u: self.prox_obj_1d(u, x, s, j), x, lo_zero=pos)
        if u != 0 and k in ("mcp", "wmcp", "scad", "l05", "l23", "logsum"):
            u2 = polish_stationary(k, u, x, s, 1e-6 * (1 + abs(x)), **p)
            v2 = float(self.prox_obj_1d(u2, x, s, j))
            if v2 <= v + 1e-15 * (1 + abs(v)):
                u, v = u2, min(v, v2)
        return u, v

    def prox_block(self, x, s, unit=None):
        """(argmin, min value) for a group / row vector x."""
        k, p = self.kind, self.p
        x = np.asarray(x, float)
        if k == "group":
            lam = s * p["alpha"] * p["weights"][unit]
            xx = np.maximum(x, 0) if p.get("positive", False) else x
            nx = norm(xx)
            u = np.zeros_like(x) if nx <= lam else (1 - lam / nx) * xx
            val = 0.5 * norm(u - x) ** 2 + lam * norm(u)
            return u, float(val)
        if k == "sgroup":
            G = p["groups"][unit]
            l1 = s * p["alpha"] * np.asarray(p["weights_features"], float)[G]
            lam = s * p["alpha"] * p["weights_groups"][unit]
            t = np.sign(x) * np.maximum(np.abs(x) - l1, 0)
            nt = norm(t)
            u = np.zeros_like(x) if nt <= lam else (1 - lam / nt) * t
            val = 0.5 * norm(u - x) ** 2 + lam * norm(u) + np.sum(l1 * np.abs(u))
            return u, float(val)
        if k in self.ROW:
            # rotation invariant: minimiser is along x; reduce to the radial 1-D problem on r >= 0
            nx = norm(x)
            f = lambda r: 0.5 * (np.asarray(r, float) - nx) ** 2 + s * pen_radial(k, np.abs(r), **p)  # noqa
            if k == "l21":
                r = max(nx - s * p["alpha"], 0.0)
                val = float(f(r))
            else:
                r, val = brute_prox_1d(f, nx, lo_zero=True)
                if r != 0:
                    r2 = polish_stationary(k, r, nx, s, 1e-6 * (1 + nx), **p)
                    v2 = float(f(r2))
                    if v2 <= val + 1e-15 * (1 + abs(val)):
                        r, val = abs(r2), min(val, v2)
            u = np.zeros_like(x) if nx == 0 else (r / nx) * x
            return u, val
        raise KeyError(k)

    def prox_block_obj(self, u, x, s, unit=None):
        k, p = self.kind, self.p
        u = np.asarray(u, float)
        x = np.asarray(x, float)
        q = 0.5 * norm(u - x) ** 2
        if k == "group":
            if p.get("positive", False) and np.any(u < 0):
                return INF
            return float(q + s * p["alpha"] * p["weights"][unit] * norm(u))
        if k == "sgroup":
            G = p["groups"][unit]
            wf = np.asarray(p["weights_features"], float)[G]
            return float(q + s * p["alpha"] * (p["weights_groups"][unit] * norm(u) + np.sum(wf * np.abs(u))))
        if k in self.ROW:
            return float(q + s * pen_radial(k, norm(u), **p))
        raise KeyError(k)


def brute_prox_1d(f, x, lo_zero=False, n=20001):
    """Global minimiser of a scalar prox objective f on [min(0,x)-|x|*0 ...]: the minimiser of
    0.5(u-x)^2 + s*pen(|u|) with pen non-decreasing in |u| lies between 0 and x.  Dense grid, then
    three zoom levels around the five best cells; 0 and x are always candidates."""
    lo, hi = (0.0, max(x, 0.0)) if lo_zero else (min(0.0, x), max(0.0, x))
    if hi == lo:
        return lo, float(f(np.array([lo]))[0])
    best_u, best_v = lo, INF
    cand = np.r_[np.linspace(lo, hi, n), 0.0 if lo <= 0.0 <= hi else lo, min(max(x, lo), hi)]
    width = (hi - lo) / (n - 1)
    for _ in range(4):
        vals = f(cand)
        order = np.argsort(vals, kind="stable")[:5]
        if vals[order[0]] < best_v:
            best_v, best_u = float(vals[order[0]]), float(cand[order[0]])
        nxt = [np.linspace(max(lo, c - width), min(hi, c + width), 2001) for c in cand[order]]
        cand = np.concatenate(nxt)
        width = width / 1000.0
    # prefer the exact kink / the exact input when they are (numerically) as good: a grid point that is 1e-18
    # away from 0 must not be reported instead of 0
    for special in (0.0, float(x)):
        if lo <= special <= hi:
            vs = float(f(np.array([special]))[0])
            if vs <= best_v + 1e-15 * (1 + abs(best_v)):
                best_u, best_v = special, min(vs, best_v)
    return best_u, best_v


# SLOPE prox via isotonic regression (independent of the repo's stack-based PAVA)
def slope_prox(x, lambdas):
    from sklearn.isotonic import isotonic_regression
    x = np.asarray(x, float)
    lam = np.asarray(lambdas, float)
    sign = np.sign(x)
    ax = np.abs(x)
    order = np.argsort(-ax, kind="stable")
    v = ax[order] - lam
    v = isotonic_regression(v, increasing=False)
    v = np.maximum(v, 0)
    out = np.zeros_like(x)
    out[order] = v
    return sign * out


def slope_value(w, lambdas):
    return float(np.sum(np.sort(np.abs(w))[::-1] * np.asarray(lambdas, float)))


# =====================================================================================
# problems: objective, certificate
# =====================================================================================
class RefProblem:
    """datafit(Xw + b) + penalty(w); X dense ndarray (harness densifies sparse input)."""

    def __init__(self, X, y, df, pen, fit_intercept=False):
        self.X = np.asarray(X, float)
        self.y = np.asarray(y, float)
        self.df = df
        self.pen = pen
        self.fit_intercept = fit_intercept

    def split(self, coef):
        coef = np.asarray(coef, float)
        if self.fit_intercept:
            return coef[:-1], coef[-1]
        return coef, (0.0 if coef.ndim == 1 else np.zeros(coef.shape[1]))

    def objective(self, coef):
        w, b = self.split(coef)
        if not np.all(np.isfinite(w)) or not np.all(np.isfinite(b)):
            return np.nan
        return self.df.full_value(self.X, self.y, w, b) + self.pen.value(w)

    def gradient(self, coef):
        w, b = self.split(coef)
        return self.df.grad_w(self.X, self.y, w, b)

    def lipschitz(self):
        """coordinate-wise curvature bounds L_j = sum_i c_i X_ij^2 (None if not defined for the loss)."""
        c = self.df.curv_sup(self.y, self.X.shape[0])
        if c is None:
            return None
        return c @ (self.X ** 2)

    def hess_lipschitz(self, coef):
        """L_j used by prox-Newton's fixpoint score: sum_i h_i(z) X_ij^2."""
        w, b = self.split(coef)
        h = self.df.rawhess_diag(self.y, self.X @ w + b)
        return h @ (self.X ** 2)

    def cert_subdiff(self, coef):
        """(max violation, per-unit distances, intercept violation)."""
        w, b = self.split(coef)
        g = self.df.grad_w(self.X, self.y, w, b)
        d = self.pen.dist(w, g)
        ib = float(np.max(np.abs(self.df.grad_b(self.X, self.y, w, b)))) if self.fit_intercept else 0.0
        m = float(np.max(d)) if len(d) else 0.0
        return max(m, ib), d, ib

    def cert_fixpoint(self, coef, L=None):
        """prox-gradient fixed point residual per coordinate with reference prox/gradient/L.
        Zero-curvature coordinates are judged by their subdifferential distance."""
        w, b = self.split(coef)
        g = self.df.grad_w(self.X, self.y, w, b)
        L = self.lipschitz() if L is None else L
        pen = self.pen
        if pen.kind in RefPenalty.SEP:
            res = np.zeros(len(w))
            dsub = pen.dist(w, g)
            for j in range(len(w)):
                if L[j] == 0:
                    res[j] = dsub[j]
                    continue
                s = 1.0 / L[j]
                if not pen.admissible_step(s, j):
                    res[j] = dsub[j]     # prox-gradient map not well defined for this step: judge stationarity
                    continue
                x = w[j] - s * g[j]
                u, vmin = pen.prox_1d(x, s, j)
                res[j] = abs(w[j] - u)
                if not pen.convex and res[j] > 0.1 * max(abs(u), abs(w[j])):
                    # a tie between two *distinct* global minimisers (0 and a point a jump away): purely relative
                    # objective comparison, so that a tiny non-zero minimiser next to 0 is not mistaken for one
                    vw = float(pen.prox_obj_1d(w[j], x, s, j))
                    if abs(vw - vmin) <= 1e-10 * abs(vmin):
                        res[j] = 0.0
        elif pen.kind in RefPenalty.GRP:
            groups = pen.p["groups"]
            res = np.zeros(len(groups))
            dsub = pen.dist(w, g)
            for gi, G in enumerate(groups):
                if L[gi] == 0:
                    res[gi] = dsub[gi]
                    continue
                s = 1.0 / L[gi]
                u, _ = pen.prox_block(w[G] - s * g[G], s, gi)
                res[gi] = norm(w[G] - u)
        elif pen.kind in RefPenalty.ROW:
            res = np.zeros(w.shape[0])
            dsub = pen.dist(w, g)
            for j in range(w.shape[0]):
                if L[j] == 0:
                    res[j] = dsub[j]
                    continue
                s = 1.0 / L[j]
                if not pen.admissible_step(s, j):
                    res[j] = dsub[j]
                    continue
                x = w[j] - s * g[j]
                u, vmin = pen.prox_block(x, s, j)
                res[j] = norm(w[j] - u)
                if not pen.convex and res[j] > 0.1 * max(norm(u), norm(w[j])) and \
                        abs(pen.prox_block_obj(w[j], x, s, j) - vmin) <= 1e-10 * abs(vmin):
                    res[j] = 0.0
        else:
            raise KeyError(pen.kind)
        ib = float(np.max(np.abs(self.df.grad_b(self.X, self.y, w, b)))) if self.fit_intercept else 0.0
        m = float(np.max(res)) if len(res) else 0.0
        return max(m, ib), res, ib

    def group_lipschitz(self):
        c = self.df.curv_sup(self.y, self.X.shape[0])
        out = []
        for G in self.pen.p["groups"]:
            XG = self.X[:, G] * np.sqrt(c)[:, None]
            out.append(norm(XG, ord=2) ** 2 if XG.size else 0.0)
        return np.array(out)

    def dot_error_bound(self, coef):
        """forward error bound of the oracle's own gradient: 4 n eps |X|^T |r| (per coordinate max)."""
        w, b = self.split(coef)
        z = self.X @ w + b
        try:
            r = np.abs(self.df.rawgrad(self.y, z))
        except Exception:
            return 0.0
        n = self.X.shape[0]
        e = 4 * (n + self.X.shape[1]) * np.finfo(float).eps
        return float(e * np.max(np.abs(self.X).T @ r)) if r.ndim == 1 else float(e * np.max(np.abs(self.X).T @ r))


# =====================================================================================
# duality gaps for convex families (solver-free lower bounds on the optimum)
# =====================================================================================
def gap_lasso(X, y, w, alpha, b=0.0, l1_ratio=1.0, weights=None, positive=False):
    """Duality gap for 1/(2n)||y-Xw-b||^2 + alpha*(r*sum(wt|w|) + (1-r)/2 ||w||^2), b must be optimal
    (mean residual zero) when non-zero. Returns (gap, primal).  Elastic net through the augmented design."""
    n, p = X.shape
    wt = np.ones(p) if weights is None else np.asarray(weights, float)
    r = y - X @ w - b
    l1 = alpha * l1_ratio * wt
    l2 = alpha * (1 - l1_ratio)
    primal = (r @ r) / (2 * n) + np.sum(l1 * np.abs(w)) + l2 / 2 * (w @ w)
    # dual of min_w 1/(2n)||y - Xw||^2 + l2/2||w||^2 + sum l1_j |w_j|  (with intercept: theta ⟂ 1)
    # D(theta) = 1/(2n)||y||^2 - 1/(2n)||y - n*theta||^2 - 1/(2 l2) sum ST(X^T theta, l1)^2   (l2>0)
    theta = r / n
    if b != 0.0 or abs(r.sum()) > 0:
        theta = theta - theta.mean() if b != 0.0 else theta
    c = X.T @ theta
    if l2 == 0:
        viol = np.where(l1 > 0, (np.maximum(c, 0) if positive else np.abs(c)) / np.where(l1 > 0, l1, 1), 0.0)
        if np.any((l1 == 0) & (np.abs(c) > 1e-14 * (1 + np.abs(c).max()))):
            # unpenalised coordinate: exact feasibility needed; project is not attempted -> no bound
            return INF, float(primal)
        sc = max(1.0, float(viol.max()) if len(viol) else 1.0)
        theta = theta / sc
        dual = (y @ y) / (2 * n) - norm(y - n * theta) ** 2 / (2 * n)
        if b != 0.0:
            pass
    else:
        st = (np.maximum(c - l1, 0) if positive else np.sign(c) * np.maximum(np.abs(c) - l1, 0))
        dual = (y @ y) / (2 * n) - norm(y - n * theta) ** 2 / (2 * n) - (st @ st) / (2 * l2)
    return float(primal - dual), float(primal)


def gap_logreg_l1(X, y, w, alpha, b=0.0):
    """Gap for mean log(1+exp(-y z)) + alpha ||w||_1 (y in ±1)."""
    from scipy.special import expit
    n = X.shape[0]
    z = X @ w + b
    primal = np.mean(np.logaddexp(0, -y * z)) + alpha * np.abs(w).sum()
    # dual variable u_i = sigma(-y_i z_i) in (0,1); theta = y*u/n ; constraint ||X^T theta||_inf <= alpha
    u = expit(-y * z)
    theta = y * u / n
    c = X.T @ theta
    sc = max(1.0, np.abs(c).max() / alpha) if alpha > 0 else 1.0
    u = u / sc
    if b != 0.0:
        pass
    ent = -(np.where(u > 0, u * np.log(np.where(u > 0, u, 1)), 0) +
            np.where(u < 1, (1 - u) * np.log(np.where(u < 1, 1 - u, 1)), 0))
    dual = np.sum(ent) / n
    return float(primal - dual), float(primal)
