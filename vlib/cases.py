"""Solver-level case factory: builds (data, compiled datafit/penalty, solver, reference problem) from a JSON-able spec.

A case is a pure function of its spec (which includes the rng coordinates), so a replay only needs the spec.
"""
import warnings
import numpy as np
from numpy.linalg import norm
import scipy.sparse as sp

from vlib import refmath as R
from vlib import compose as C
from vlib.common import rng_for

# ---------------------------------------------------------------------------------------------------------
# accepted compositions (what the repository's own validation lets through and is meant to work)
# ---------------------------------------------------------------------------------------------------------
CD_DATAFITS = ["Quadratic", "WeightedQuadratic", "Logistic", "Huber", "QuadraticSVC"]
PN_DATAFITS = ["Logistic", "Poisson", "Gamma", "Quadratic", "WeightedQuadratic", "Cox"]
SEP = C.SEP_PENALTIES
POSFLAG = ["L1", "L1_plus_L2", "WeightedL1", "MCPenalty", "WeightedMCPenalty"]

SOLVER_INFO = {
    "AndersonCD": dict(datafits=CD_DATAFITS, penalties=SEP, sparse=True, intercept=True, strategies=["subdiff", "fixpoint"],
                       budget=("max_iter", "max_epochs")),
    "ProxNewton": dict(datafits=PN_DATAFITS, penalties=SEP, sparse=True, intercept=True, strategies=["subdiff", "fixpoint"],
                       budget=("max_iter", "max_pn_iter")),
    "GroupBCD": dict(datafits=["QuadraticGroup", "LogisticGroup"], penalties=["WeightedGroupL2", "WeightedL1GroupL2"],
                     sparse=True, intercept=True, strategies=["subdiff", "fixpoint"], budget=("max_iter", "max_epochs")),
    "GroupProxNewton": dict(datafits=["LogisticGroup"], penalties=["WeightedGroupL2"], sparse=False, intercept=True,
                            strategies=["subdiff"], budget=("max_iter", "max_pn_iter")),
    "MultiTaskBCD": dict(datafits=["QuadraticMultiTask"], penalties=["L2_1", "L2_05", "BlockMCPenalty", "BlockSCAD"],
                         sparse=True, intercept=True, strategies=["subdiff", "fixpoint"], budget=("max_iter", "max_epochs")),
    "GramCD": dict(datafits=[None], penalties=["L1", "L1_plus_L2", "WeightedL1", "MCPenalty", "WeightedMCPenalty", "SCAD",
                                               "PositiveConstraint", "LogSumPenalty"],
                   sparse=True, intercept=False, strategies=["subdiff"], budget=("max_iter",)),
    "FISTA": dict(datafits=["Quadratic", "Logistic", "Huber", "WeightedQuadratic", "QuadraticSVC"],
                  penalties=["L1", "L1_plus_L2", "WeightedL1", "IndicatorBox", "PositiveConstraint", "SLOPE"],
                  sparse=True, intercept=False, strategies=["subdiff"], budget=("max_iter",)),
    "LBFGS": dict(datafits=["Logistic", "Quadratic", "Poisson", "Cox", "WeightedQuadratic"], penalties=["L2"], sparse=True,
                  intercept=False, strategies=["subdiff"], budget=("max_iter",)),
    "PDCD_WS": dict(datafits=["Pinball", "SqrtQuadratic"], penalties=["L1", "L1_plus_L2", "WeightedL1"], sparse=False,
                    intercept=False, strategies=["fixpoint"], budget=("max_iter", "max_epochs")),
}


def compatible(solver, datafit, penalty, storage="dense", fit_intercept=False, strategy="subdiff"):
    """Our expectation of which cells are *meant* to be solved (used to build workloads, not as an oracle)."""
    info = SOLVER_INFO[solver]
    if datafit not in info["datafits"] or penalty not in info["penalties"]:
        return False
    if storage != "dense" and not info["sparse"]:
        return False
    if fit_intercept and not info["intercept"]:
        return False
    if strategy not in info["strategies"]:
        return False
    if datafit == "QuadraticSVC" and (fit_intercept or penalty != "IndicatorBox"):
        return False
    if penalty == "IndicatorBox" and datafit not in ("QuadraticSVC",) and solver not in ("FISTA",):
        pass
    if datafit == "Cox" and (fit_intercept or (storage != "dense" and solver == "ProxNewton" and False)):
        return False
    if penalty == "WeightedL1GroupL2" and strategy == "subdiff":
        return False
    if penalty in ("L0_5", "L2_3") and strategy == "subdiff" and False:
        return False
    if solver == "LBFGS" and datafit in ("Quadratic", "WeightedQuadratic") and storage != "dense":
        return False  # no gradient_sparse
    if solver == "LBFGS" and datafit == "Poisson" and storage != "dense":
        return False
    if solver == "FISTA" and datafit == "WeightedQuadratic" and storage != "dense":
        return True
    return True


# ---------------------------------------------------------------------------------------------------------
class Case:
    def __init__(self, spec):
        self.spec = spec
        s = spec
        self.rng = rng_for(s.get("check", "case"), s.get("seed", 0), *s.get("coords", [0]))
        rng = self.rng
        self.solver_name = s["solver"]
        self.df_name = s.get("datafit")
        self.pen_name = s["penalty"]
        self.storage = s.get("storage", "dense")
        self.fit_intercept = bool(s.get("fit_intercept", False)) and SOLVER_INFO[self.solver_name]["intercept"]
        self.strategy = s.get("strategy", "subdiff")
        n, p = int(s.get("n", 20)), int(s.get("p", 8))
        self.n, self.p = n, p
        dfn = self.df_name or "Quadratic"
        # ---- data
        X = C.make_X(rng, n, p, s.get("xkind", "gauss"), rho=s.get("rho", 0.7), density=s.get("density", 1.0))
        if s.get("mutate_X"):
            X = mutate_design(rng, X, s["mutate_X"])
        self.groups = C.make_groups(rng, p, style=s.get("group_style", "contig")) if not s.get("single_group") \
            else [np.arange(p)]
        if s.get("zero_group"):
            gi = {"first": 0, "middle": len(self.groups) // 2, "last": len(self.groups) - 1}[s["zero_group"]]
            X = np.array(X, copy=True, order="F")
            X[:, self.groups[gi]] = 0.0
            self.null_group = gi
        self.n_tasks = int(s.get("n_tasks", 3))
        y = C.make_target(rng, X, C.TARGET_KIND[dfn], n_tasks=self.n_tasks, ties=s.get("ties", True),
                          noise=s.get("noise", 0.5), offset_scale=s.get("offset_scale"),
                          censor_all=bool(s.get("censor_all", False)))
        if s.get("mirror_pairs") and C.TARGET_KIND[dfn] == "pm1":
            # half of the rows are copies of the other half with the opposite label: the logistic loss is then coercive
            # (log(1+e^z) + log(1+e^-z) >= |z|), so every composition, also one without any penalty that bounds the
            # coefficients, has a minimiser
            k = n // 2
            X = np.array(X, copy=True, order="F")
            X[k:2 * k] = X[:k]
            y = np.array(y, copy=True)
            y[k:2 * k] = -y[:k]
        if s.get("mutate_y"):
            y = mutate_target(rng, y, s["mutate_y"], C.TARGET_KIND[dfn])
        if dfn == "QuadraticSVC":
            # dual SVC: the "design" handed to the solver is (y * X)^T, coefficients are the n dual variables
            yl = y
            A = (X * yl[:, None]).T            # (p, n)
            self.Xd = np.asfortranarray(A)
            self.y = yl
            self.n_rows, self.n_coef = A.shape
        else:
            self.Xd = np.asfortranarray(X)
            self.y = y
            self.n_rows, self.n_coef = X.shape
        self.X = C.to_storage(self.Xd, self.storage) if self.storage != "dense" else self.Xd
        # ---- datafit / penalty
        dfo = dict(s.get("df_opts", {}))
        if dfn == "WeightedQuadratic" and "sw" not in dfo:
            dfo["sw"] = rng.uniform(0.2, 3.0, size=n)
        self.df_u, self.ref_df, self.df_prm = C.make_datafit(dfn, rng, n, groups=self.groups, **dfo)
        scale = C.ref_alpha_scale(self.Xd, self.y, self.ref_df, self.fit_intercept)
        self.alpha_scale = scale
        frac = float(s.get("alpha_frac", 0.1))
        if self.pen_name == "IndicatorBox":
            alpha = float(s.get("C", 10 ** rng.uniform(-1, 1)))
        else:
            alpha = frac * scale
        self.alpha = alpha
        po = dict(s.get("pen_opts", {}))
        if self.pen_name in ("WeightedL1", "WeightedGroupL2") and s.get("zero_weights"):
            po["zero_weights"] = True
        if s.get("zero_weight_on_null") and getattr(self, "null_group", None) is not None:
            po["null_units"] = [int(self.null_group)]       # the all-zero group is also unpenalised (weight 0)
        self.pen_u, self.ref_pen, self.pen_prm = C.make_penalty(
            self.pen_name, rng, self.n_coef, alpha, groups=self.groups, positive=bool(s.get("positive", False)), **po)
        self.ref = R.RefProblem(self.Xd, self.y, self.ref_df, self.ref_pen, self.fit_intercept)
        self.knobs = dict(s.get("knobs", {}))

    # -------------------------------------------------------------------------------------
    def compiled(self):
        df = None if self.df_name is None else C.compiled(self.df_u)
        pen = C.compiled(self.pen_u)
        if df is not None:
            if sp.issparse(self.X):
                if hasattr(df, "initialize_sparse"):
                    df.initialize_sparse(self.X.data, self.X.indptr, self.X.indices, self.y)
            elif hasattr(df, "initialize"):
                df.initialize(self.X, self.y)
        return df, pen

    def make_solver(self, **over):
        kw = dict(self.knobs)
        kw.update(over)
        name = self.solver_name
        if name in ("AndersonCD", "ProxNewton", "GroupBCD", "MultiTaskBCD"):
            kw.setdefault("ws_strategy", self.strategy)
        if name in ("AndersonCD", "ProxNewton", "GroupBCD", "GroupProxNewton", "MultiTaskBCD"):
            kw["fit_intercept"] = self.fit_intercept
        if name == "FISTA":
            kw.setdefault("opt_strategy", self.strategy)
        return C.make_solver(name, **kw)

    def start(self, kind="zero", rng=None):
        """(w_init, Xw_init) with Xw_init = X w + b computed by the reference model; None for cold start."""
        rng = rng or self.rng
        if kind == "cold":
            return None, None
        m = self.n_coef
        multi = self.ref_df.kind == "multitask"
        shape = (m, self.n_tasks) if multi else (m,)
        if kind == "zero":
            w = np.zeros(shape)
        elif kind == "dense":
            w = rng.standard_normal(shape) * float(rng.choice([0.1, 1.0]))
        elif kind == "sparse":
            w = np.zeros(shape)
            idx = rng.choice(m, max(1, m // 3), replace=False)
            w[idx] = rng.standard_normal((len(idx),) + shape[1:])
        elif kind == "null_only":
            # all the mass of the start sits on the all-zero group (a stale coefficient of a feature that vanished)
            w = np.zeros(shape)
            idx = self.groups[self.null_group] if getattr(self, "null_group", None) is not None else np.array([0])
            w[idx] = rng.standard_normal((len(idx),) + shape[1:]) + 0.5
        else:
            raise KeyError(kind)
        w = self.make_feasible(w)
        if self.ref_df.kind in ("poisson", "gamma", "cox", "logistic"):
            z = self.Xd @ w
            mz = np.max(np.abs(z)) if z.size else 0
            if mz > 3:
                w = w * (3.0 / mz)
        if self.fit_intercept:
            b = rng.standard_normal(shape[1:]) * (0 if kind == "zero" else 0.5)
            if self.spec.get("intercept_start") is not None and kind != "zero":
                b = b * 0 + float(self.spec["intercept_start"])      # far out, on a flat side of a saturating loss
            coef = np.vstack([w, np.atleast_1d(b)[None, :]]) if multi else np.r_[w, b]
        else:
            b = 0.0
            coef = w
        Xw = self.Xd @ w + b
        return np.ascontiguousarray(coef), np.ascontiguousarray(Xw)

    def make_feasible(self, w):
        k = self.ref_pen.kind
        if k == "box":
            return np.clip(np.abs(w), 0, self.alpha)
        if k == "pos" or self.ref_pen.p.get("positive", False):
            return np.abs(w)
        return w

    def solve(self, w_init=None, Xw_init=None, trace_kinds=("return",), **over):
        """Run the real solver. Returns dict(w, obj, stop, exc, Xw_buf)."""
        df, pen = self.compiled()
        solver = self.make_solver(**over)
        out = dict(exc=None, solver=solver)
        w0 = None if w_init is None else w_init.copy()
        xw0 = None if Xw_init is None else Xw_init.copy()
        if self.spec.get("buffers") == "strided" and xw0 is not None:
            # the caller's buffers are strided views (every other slot of a larger array): legitimate numpy arrays that
            # must still be updated in place
            def strided(a):
                big = np.zeros((2 * a.shape[0],) + a.shape[1:], dtype=a.dtype)
                v = big[::2]
                v[...] = a
                return v
            w0, xw0 = strided(w0), strided(xw0)
        from vlib.record import Trace
        try:
            with warnings.catch_warnings(), Trace(kinds=trace_kinds) as tr:
                warnings.simplefilter("ignore")
                if self.solver_name == "GramCD" and self.df_name is None:
                    w, obj, stop = solver.solve(self.X, self.y, None, pen, w0, xw0)
                else:
                    w, obj, stop = solver.solve(self.X, self.y, df, pen, w0, xw0)
            ret = tr.of("return")
            xw_buf = xw0
            if xw_buf is None and ret and ret[-1].get("Xw") is not None:
                xw_buf = ret[-1]["Xw"]      # cold start: the solver's own buffer, observed at the return hook
            out.update(w=np.asarray(w), obj=np.asarray(obj), stop=float(stop), Xw_buf=xw_buf, w_buf=w0,
                       trace=tr, hook_return=bool(ret))
        except BaseException as e:  # noqa
            if isinstance(e, (KeyboardInterrupt, SystemExit)):
                raise
            out["exc"] = e
        return out

    def tol(self, **over):
        return over.get("tol", self.knobs.get("tol", 1e-4))

    # -------------------------------------------------------------------------------------
    def certificate(self, coef, strategy=None):
        """Reference violation at coef for the certificate the configuration documents."""
        strategy = strategy or self.strategy
        name = self.solver_name
        if name == "LBFGS":
            w = np.asarray(coef, float)
            g = self.ref_df.grad_w(self.Xd, self.y, w) + self.ref_pen.p["alpha"] * w
            return float(np.max(np.abs(g))), None, 0.0
        if strategy == "fixpoint" and name in ("AndersonCD", "GroupBCD", "MultiTaskBCD", "ProxNewton"):
            if name == "ProxNewton":
                L = self.ref.hess_lipschitz(coef)
            elif name == "GroupBCD":
                L = self.ref.group_lipschitz()
            else:
                L = self.ref.lipschitz()
            return self.ref.cert_fixpoint(coef, L)
        return self.ref.cert_subdiff(coef)

    def fixpoint_steps(self, coef, strategy=None):
        """per-unit curvature constants of the prox-gradient residual that `certificate` measures, or None when the
        certificate is a subdifferential distance (same selection as in `certificate`)."""
        strategy = strategy or self.strategy
        name = self.solver_name
        if strategy == "fixpoint" and name in ("AndersonCD", "GroupBCD", "MultiTaskBCD", "ProxNewton"):
            if name == "ProxNewton":
                return np.asarray(self.ref.hess_lipschitz(coef), float)
            if name == "GroupBCD":
                return np.asarray(self.ref.group_lipschitz(), float)
            return np.asarray(self.ref.lipschitz(), float)
        return None

    def describe(self):
        s = self.spec
        return dict(solver=self.solver_name, datafit=self.df_name, penalty=self.pen_name, storage=self.storage,
                    fit_intercept=self.fit_intercept, strategy=self.strategy, n=self.n_rows, p=self.n_coef,
                    xkind=s.get("xkind", "gauss"), alpha=self.alpha, alpha_frac=s.get("alpha_frac", 0.1),
                    positive=bool(s.get("positive", False)), knobs=self.knobs,
                    mutate_X=s.get("mutate_X"), mutate_y=s.get("mutate_y"))

    def cell(self):
        return "%s|%s|%s|%s|icpt=%d|%s" % (self.solver_name, self.df_name, self.pen_name, self.storage,
                                           int(self.fit_intercept), self.strategy)


# ---------------------------------------------------------------------------------------------------------
def mutate_design(rng, X, kind):
    X = np.array(X, copy=True)
    n, p = X.shape
    pos = {"first": 0, "middle": p // 2, "last": p - 1}
    k, _, where = kind.partition("@")
    j = pos.get(where or "middle", p // 2)
    if k == "zero_col":
        X[:, j] = 0.0
    elif k == "dup_col" and p > 1:
        X[:, j] = X[:, (j + 1) % p]
    elif k == "const_col":
        X[:, j] = 1.0
    elif k == "scales":
        X *= 10.0 ** rng.uniform(-3, 3, size=p)
    elif k == "zero_cols_many":
        X[:, rng.choice(p, max(1, p // 3), replace=False)] = 0.0
    elif k not in ("dup_col",):
        raise KeyError("unknown design mutation %r" % kind)        # a silent no-op would leave a scenario untested
    return np.asfortranarray(X)


def mutate_target(rng, y, kind, tkind):
    y = np.array(y, copy=True)
    if tkind in ("real", "multi"):
        if kind == "const":
            y[...] = 2.5
        elif kind == "zero":
            y[...] = 0.0
        elif kind == "shift":
            y += 50.0
        elif kind == "zero_task" and y.ndim == 2 and y.shape[1] >= 2:
            y[:, int(rng.integers(0, y.shape[1]))] = 0.0       # one silent output channel
    return y


def widen(rng, spec, prob=0.12, n_range=(40, 120), p_range=(80, 320), p0=(1, 3, 10), fracs=(0.05, 0.2, 0.5)):
    """"wide" size class, drawn after all other draws of a generator (their random stream is unchanged): many more
    features than the first working set, so that it must grow over several outer iterations while most features are
    never visited.  Mutates and returns `spec` (None passes through)."""
    if spec is None:
        return None
    if spec.get("penalty") == "LogSumPenalty":
        return spec      # its prox is a root search: a wide problem multiplies the cost of every epoch by hundreds
    if rng.random() < prob:
        spec.update(n=int(rng.integers(*n_range)), p=int(rng.integers(*p_range)), size="wide",
                    alpha_frac=float(rng.choice(list(fracs))))
        if "p0" in spec.get("knobs", {}):
            spec["knobs"]["p0"] = int(rng.choice(list(p0)))
    return spec


TOLSWEEP_FAMILIES = [("GramCD", None, "L1"), ("GramCD", None, "WeightedL1"), ("GramCD", None, "L1_plus_L2"),
                     ("GramCD", None, "MCPenalty"), ("AndersonCD", "Quadratic", "L1"), ("AndersonCD", "Quadratic", "MCPenalty"),
                     ("AndersonCD", "Logistic", "L1"), ("AndersonCD", "Huber", "WeightedL1"),
                     ("GroupBCD", "QuadraticGroup", "WeightedGroupL2"), ("MultiTaskBCD", "QuadraticMultiTask", "L2_1")]


def tol_sweep(rng, spec, k):
    """k copies of `spec` (same data: same rng coordinates) that differ only in the tolerance, log-spaced with jitter over
    1e-2 .. 1e-10, budgets generous, acceleration on: the iteration at which the run leaves on its tolerance sweeps over
    all phases of the extrapolation cycle (just before / just after an accepted or rejected extrapolation)."""
    info = SOLVER_INFO[spec["solver"]]
    b_it, b_ep = (info["budget"] + (None,))[:2]
    out = []
    for t in np.logspace(-2, -10, k) * 10 ** rng.uniform(-0.3, 0.3, size=k):
        s2 = dict(spec)
        kn = dict(spec["knobs"])
        kn["tol"] = float(t)
        kn[b_it] = 5000 if spec["solver"] == "GramCD" else 200
        if b_ep:
            kn[b_ep] = 5000 if b_ep == "max_epochs" else 200
        if spec["solver"] == "GramCD":
            kn.update(use_acc=True, greedy_cd=False)
        if spec["solver"] == "MultiTaskBCD":
            kn["use_acc"] = True
        s2["knobs"] = kn
        s2["budget_class"] = "converges"
        s2["warm"] = "cold" if spec.get("warm") not in ("cold", "zero", "dense") else spec["warm"]
        out.append(s2)
    return out
