"""Shard runner: subprocess workers with watchdog, three-valued verdict, evidence writer, replay files."""
import collections
import concurrent.futures as cf
import hashlib
import importlib
import json
import os
import shutil
import subprocess
import sys
import tempfile
import time

VERIF_DIR = os.path.dirname(os.path.dirname(os.path.abspath(__file__)))
PY = os.environ.get("VERIF_PYTHON", "/venv/bin/python")
NPROC = int(os.environ.get("VERIF_JOBS", "16"))


def jdefault(o):
    import numpy as np
    if isinstance(o, np.ndarray):
        return o.tolist()
    if isinstance(o, (np.floating,)):
        return float(o)
    if isinstance(o, (np.integer,)):
        return int(o)
    if isinstance(o, (np.bool_,)):
        return bool(o)
    return repr(o)


def jdump(o):
    return json.dumps(o, default=jdefault, allow_nan=True)


def sanitize(o):
    """Strict-JSON form: non-finite floats become strings."""
    if isinstance(o, float):
        if o != o:
            return "nan"
        if o in (float("inf"), float("-inf")):
            return "inf" if o > 0 else "-inf"
        return o
    if isinstance(o, dict):
        return {str(k): sanitize(v) for k, v in o.items()}
    if isinstance(o, (list, tuple)):
        return [sanitize(v) for v in o]
    return o


def digest(*parts):
    h = hashlib.sha1()
    for p in parts:
        h.update(jdump(p).encode())
    return h.hexdigest()[:16]


def load_findings(prop):
    path = os.path.join(VERIF_DIR, "known_findings.json")
    if not os.path.exists(path):
        return []
    with open(path) as f:
        allf = json.load(f)
    return [e for e in allf.get("findings", []) if e.get("property") == prop]


def _match_value(cond, val):
    if isinstance(cond, dict):
        for op, ref in cond.items():
            if op == "in":
                if val not in ref:
                    return False
            elif op == "not_in":
                if val in ref:
                    return False
            elif op == "le":
                if val is None or not (val <= ref):
                    return False
            elif op == "ge":
                if val is None or not (val >= ref):
                    return False
            elif op == "lt":
                if val is None or not (val < ref):
                    return False
            elif op == "gt":
                if val is None or not (val > ref):
                    return False
            elif op == "regex":
                import re
                if val is None or not re.search(ref, str(val)):
                    return False
            elif op == "ne":
                if val == ref:
                    return False
            else:
                raise ValueError("unknown operator in known_findings match: %r" % op)
        return True
    return val == cond


def classify(viol, findings):
    """Return the id of the first *known* (not fixed) finding whose predicate matches, else None."""
    for e in findings:
        if e.get("status") != "known":
            continue
        if all(_match_value(c, viol.get(k)) for k, c in e["match"].items()):
            return e["id"]
    return None


def _run_worker(module, spec, workdir, timeout):
    sid = spec["shard"]
    spec_path = os.path.join(workdir, "spec_%s.json" % sid)
    out_path = os.path.join(workdir, "out_%s.jsonl" % sid)
    with open(spec_path, "w") as f:
        f.write(jdump(spec))
    env = dict(os.environ)
    env.update(spec.get("env", {}))
    env.setdefault("PYTHONHASHSEED", "0")
    env["PYTHONPATH"] = VERIF_DIR + os.pathsep + env.get("PYTHONPATH", "")
    t0 = time.time()
    try:
        pr = subprocess.run([PY, "-X", "faulthandler", "-m", "vlib.worker", module, spec_path, out_path],
                            cwd=VERIF_DIR, env=env, timeout=timeout, stdout=subprocess.PIPE,
                            stderr=subprocess.PIPE)
        rc, err = pr.returncode, pr.stderr.decode(errors="replace")[-3000:]
    except subprocess.TimeoutExpired as e:
        rc, err = "timeout", (e.stderr or b"").decode(errors="replace")[-1000:]
    recs, done, started = [], False, None
    if os.path.exists(out_path):
        with open(out_path) as f:
            for line in f:
                line = line.strip()
                if not line:
                    continue
                try:
                    r = json.loads(line)
                except Exception:
                    continue
                if r.get("_done"):
                    done = True
                elif r.get("status") == "started":
                    started = r
                else:
                    recs.append(r)
                    if started is not None and started.get("id") == r.get("id"):
                        started = None
    return dict(shard=sid, rc=rc, err=err, done=done, recs=recs, wall=time.time() - t0, spec=spec,
                in_flight=None if done else started)


def run_check(modname, tier, seed, replay=None, only_shards=None):
    mod = importlib.import_module("checks." + modname)
    prop = mod.PROPERTY
    t0 = time.time()
    workdir = tempfile.mkdtemp(prefix="verif_%s_" % prop, dir=os.environ.get("VERIF_TMP"))
    findings = load_findings(prop)
    try:
        if replay:
            with open(replay) as f:
                rp = json.load(f)
            spec = rp["spec"]
            spec["only"] = rp["case"]
            shards = [spec]
            tier, seed = rp.get("tier", tier), rp.get("seed", seed)
        else:
            shards = mod.plan(tier, seed)
            for i, s in enumerate(shards):
                s.setdefault("shard", "%03d" % i)
                s.update(tier=tier, seed=seed, property=prop)
            if only_shards:
                shards = [s for s in shards if s["shard"] in only_shards]
        timeout = getattr(mod, "SHARD_TIMEOUT", {"quick": 1500, "thorough": 7200})[tier]
        results = []
        with cf.ThreadPoolExecutor(max_workers=NPROC) as ex:
            futs = [ex.submit(_run_worker, modname, s, workdir, timeout) for s in shards]
            for fu in cf.as_completed(futs):
                results.append(fu.result())
        results.sort(key=lambda r: r["shard"])
        if hasattr(mod, "post"):
            # cross-shard analysis (e.g. pairing a sanitised and a plain execution of the same cases)
            extra = mod.post(results)
            results.append(dict(shard="post", rc=0, err="", done=True, recs=extra, wall=0.0,
                                spec=dict(name="post", shard="post")))
        return _summarise(mod, prop, tier, seed, results, findings, t0, replay)
    finally:
        shutil.rmtree(workdir, ignore_errors=True)


def _summarise(mod, prop, tier, seed, results, findings, t0, replay):
    counts = collections.Counter()
    cells = collections.Counter()
    cells_nontrivial = collections.Counter()
    hist = collections.defaultdict(collections.Counter)
    digests = set()
    samples, viol_recs, inconcl = [], [], []
    extra = collections.Counter()
    dead = []
    for r in results:
        if not r["done"]:
            dead.append(dict(shard=r["shard"], rc=r["rc"], err=r["err"][-600:], name=r["spec"].get("name"),
                             in_flight=(r.get("in_flight") or {}).get("id")))
            if getattr(mod, "DEATH_IS_VIOLATION", False) and r.get("in_flight"):
                fl = r["in_flight"]
                r["recs"].append(dict(id=fl.get("id"), cell=fl.get("cell"), status="violated", nontrivial=True,
                                      digest=digest(fl.get("id")),
                                      viol=dict(dict(fl.get("coords") or {}), mechanism="worker-died-or-hung",
                                                rc=str(r["rc"]), detail="worker exit %s while running this case: %s" % (
                                                    r["rc"], r["err"][-300:].replace("\n", " "))),
                                      obs=dict(stderr=r["err"][-1500:])))
        for rec in r["recs"]:
            st = rec.get("status", "held")
            if st == "partial":
                extra["partial_executions"] += 1
                continue
            counts[st] += 1
            c = rec.get("cell")
            if c:
                cells[c] += 1
            if rec.get("nontrivial"):
                digests.add(rec.get("digest") or digest(rec.get("id")))
                if c:
                    cells_nontrivial[c] += 1
            for k, v in (rec.get("hist") or {}).items():
                hist[k][str(v)] += 1
            for k, v in (rec.get("count") or {}).items():
                extra[k] += v
            if st == "violated":
                rec["_spec"] = r["spec"]
                viol_recs.append(rec)
            elif st == "inconclusive":
                inconcl.append(rec)
            if rec.get("sample") is not None and len(samples) < 6 and (len(samples) < 3 or st != "held"):
                samples.append(dict(id=rec.get("id"), cell=c, status=st, case=rec["sample"]))
    # worker death handling (a check may declare that death itself is a violation)
    death_is_violation = getattr(mod, "DEATH_IS_VIOLATION", False)
    lines, rc = [], 0
    unknown, known = [], collections.Counter()
    os.makedirs(os.path.join(VERIF_DIR, "replays", prop), exist_ok=True)
    seen_mech = collections.Counter()
    for rec in viol_recs:
        # a case may carry several violations ("viols"); it is known only if every one of them is a known finding
        vlist = [dict(x) for x in (rec.get("viols") or [rec.get("viol") or {}])]
        fids = [classify(dict(x, property=prop), findings) for x in vlist]
        if all(fids):
            for fid in set(fids):
                known[fid] += 1
            continue
        v = dict(vlist[fids.index(None)])
        v.setdefault("property", prop)
        mech = v.get("mechanism", "unclassified") + "|" + str(rec.get("cell"))
        unknown.append(rec)
        seen_mech[mech] += 1
        if seen_mech[mech] > 1 or len(lines) >= 40:
            continue
        rp = dict(property=prop, tier=tier, seed=seed, case=rec.get("id"), spec=rec["_spec"],
                  violation=v, observed=rec.get("obs"), cell=rec.get("cell"))
        name = "%s_%s.json" % (prop, digest(rec.get("id"), rec["_spec"].get("shard"), seed, tier))
        path = os.path.join(VERIF_DIR, "replays", prop, name)
        with open(path, "w") as f:
            f.write(jdump(rp))
        lines.append("VIOLATION property=%s replay=%s  # %s %s" % (
            prop, os.path.relpath(path, VERIF_DIR), mech, str(v.get("detail", ""))[:200]))
    if os.environ.get("VERIF_DUMP"):
        os.makedirs(os.path.join(VERIF_DIR, ".work"), exist_ok=True)
        with open(os.path.join(VERIF_DIR, ".work", "viol_%s.jsonl" % prop), "w") as f:
            for rec in viol_recs:
                rr = {k: v for k, v in rec.items() if k != "_spec"}
                rr["known"] = [classify(dict(x), findings) for x in (rec.get("viols") or [rec.get("viol") or {}])]
                f.write(jdump(rr) + "\n")
    for mech, cnt in seen_mech.items():
        lines.append("#   %d x %s" % (cnt, mech))
    for e in findings:
        if e.get("status") == "known":
            lines.append("KNOWN-FINDING: property=%s %s [%s] observed_this_run=%d" % (
                prop, e.get("what", ""), e["id"], known.get(e["id"], 0)))
    if unknown:
        rc = 1
    n_nontrivial = len(digests)
    floor = getattr(mod, "FLOOR", {"quick": 2, "thorough": 2})[tier] if not replay else 0
    reasons = []
    if dead and not replay:
        if death_is_violation:
            pass
        reasons.append("%d shard(s) did not finish: %s" % (len(dead), jdump(dead)[:1500]))
    if n_nontrivial < floor:
        reasons.append("deciding monitor reached on %d distinct cases < floor %d" % (n_nontrivial, floor))
    if inconcl and len(inconcl) > getattr(mod, "MAX_INCONCLUSIVE_FRAC", 0.2) * max(1, sum(counts.values())):
        reasons.append("%d inconclusive cases" % len(inconcl))
    if reasons and rc == 0:
        rc = 2
        lines.append("INCONCLUSIVE property=%s reason=%s" % (prop, " ; ".join(reasons)))
    wall = time.time() - t0
    if not replay:
        ev = dict(
            property_id=prop, tier=tier, seed=int(seed), level=getattr(mod, "LEVEL", "exploration"),
            coverage=dict(
                evaluations=int(sum(counts.values())),
                distinct_nontrivial=int(n_nontrivial),
                rule=mod.RULE,
                samples=samples,
                exhaustive=bool(getattr(mod, "EXHAUSTIVE", {}).get(tier, False)),
                status_counts=dict(counts),
                cells_observed=dict(sorted(cells.items())),
                cells_reaching_deciding_monitor=dict(sorted(cells_nontrivial.items())),
                histograms={k: dict(v.most_common(40)) for k, v in hist.items()},
                monitor_event_counts=dict(extra),
                traces_validated_against_impl=int(extra.get("traces_validated_against_impl", 0)),
                shards=len(results), shards_not_finished=dead,
                known_findings_observed=dict(known),
                unknown_violations=len(unknown),
                inconclusive_reasons=reasons,
                inconclusive_samples=[dict(id=r.get("id"), cell=r.get("cell"), obs=r.get("obs")) for r in inconcl[:5]],
                slack=getattr(mod, "SLACK", {}),
            ),
            assumptions=list(getattr(mod, "ASSUMPTIONS", [])),
            wall_s=round(wall, 2),
            violations=len(unknown),
        )
        # (VERIF_EVIDENCE_DIR: trial runs against patched scratch trees write elsewhere, so that evidence/ only ever holds
        #  what a run against /repo itself observed)
        evdir = os.environ.get("VERIF_EVIDENCE_DIR") or os.path.join(VERIF_DIR, "evidence")
        os.makedirs(evdir, exist_ok=True)
        with open(os.path.join(evdir, prop + ".json"), "w") as f:
            json.dump(sanitize(json.loads(jdump(ev))), f, indent=1, allow_nan=False)
    print("%s tier=%s seed=%s cases=%d nontrivial=%d %s wall=%.1fs" % (
        prop, tier, seed, sum(counts.values()), n_nontrivial, dict(counts), wall))
    for ln in lines:
        print(ln)
    if replay:
        for rec in viol_recs:
            print("REPLAY-VIOLATION", jdump(rec.get("viol")), jdump(rec.get("obs"))[:2000])
        if not viol_recs:
            print("REPLAY: case held (no violation reproduced)")
    sys.stdout.flush()
    return rc
