"""Oracle self-test (run by setup.sh): the reference model must be internally consistent before it judges anything.

  1. reference raw gradients == central finite differences of the reference losses;
  2. reference Hessian diagonals == finite differences of the reference gradients (bounds dominate for Cox/sqrt);
  3. closed-form reference proxes == brute-force minimisers (objective value);
  4. reference subdifferential distance is zero at constructed prox fixed points and positive elsewhere;
  5. the inf-safe comparison helpers behave on adversarial inputs;
  6. NUMBA_BOUNDSCHECK=1 is honoured in a child process (an out-of-range read raises IndexError).
"""
import subprocess
import sys

import numpy as np

from vlib import refmath as R


def fd(f, z, h=1e-6):
    g = np.zeros_like(z)
    for i in range(len(z)):
        zp, zm = z.copy(), z.copy()
        zp[i] += h
        zm[i] -= h
        g[i] = (f(zp) - f(zm)) / (2 * h)
    return g


def main():
    rng = np.random.default_rng(0)
    n = 9
    z = rng.standard_normal(n)
    y_real = rng.standard_normal(n)
    y_pm = np.sign(rng.standard_normal(n))
    y_cnt = rng.poisson(2.0, size=n).astype(float)
    y_pos = rng.gamma(2.0, 1.0, size=n) + 0.1
    tm = rng.integers(1, 4, size=n).astype(float)
    s = (rng.random(n) < 0.7).astype(float)
    s[0] = 1
    y_surv = np.column_stack([tm, s])
    sw = rng.uniform(0.2, 2, size=n)
    cases = [("quadratic", {}, y_real), ("wquadratic", dict(sw=sw), y_real), ("logistic", {}, y_pm),
             ("huber", dict(delta=0.7), y_real), ("poisson", {}, y_cnt), ("gamma", {}, y_pos),
             ("cox", dict(efron=False), y_surv), ("cox", dict(efron=True), y_surv), ("sqrtquad", {}, y_real)]
    for kind, prm, y in cases:
        df = R.RefDatafit(kind, **prm)
        g = df.rawgrad(y, z)
        g_fd = fd(lambda zz: df.value(y, zz), z)
        assert np.allclose(g, g_fd, rtol=1e-5, atol=1e-7), ("gradient", kind, prm, np.max(np.abs(g - g_fd)))
        H_fd = np.array([fd(lambda zz, i=i: df.rawgrad(y, zz)[i], z, h=1e-5) for i in range(n)])
        if kind in ("cox", "sqrtquad"):
            lam = np.linalg.eigvalsh(np.diag(df.rawhess_diag(y, z)) - 0.5 * (H_fd + H_fd.T))[0]
            assert lam > -1e-6, ("hessian bound", kind, lam)
        else:
            assert np.allclose(np.diag(H_fd), df.rawhess_diag(y, z), rtol=1e-4, atol=1e-6), ("hessian", kind)
    # 3. proxes
    for kind, prm in [("l1", dict(alpha=0.7)), ("enet", dict(alpha=0.7, l1_ratio=0.3)), ("box", dict(alpha=1.3)), ("pos", {}),
                      ("l1", dict(alpha=0.7, positive=True)), ("mcp", dict(alpha=0.7, gamma=3.0)),
                      ("scad", dict(alpha=0.7, gamma=3.7)), ("l05", dict(alpha=0.7)), ("l23", dict(alpha=0.7)),
                      ("logsum", dict(alpha=0.7, eps=0.4))]:
        pen = R.RefPenalty(kind, **prm)
        for x in np.r_[rng.standard_normal(12) * 2, 0.0]:
            for st in (0.3, 1.0):
                u, v = pen.prox_1d(float(x), st)
                ub, vb = R.brute_prox_1d(lambda t: pen.prox_obj_1d(t, float(x), st), float(x),
                                         lo_zero=bool(prm.get("positive")) or kind in ("pos",))
                if kind == "box":
                    ub, vb = R.brute_prox_1d(lambda t: pen.prox_obj_1d(np.clip(t, 0, prm["alpha"]), float(x), st) +
                                             1e6 * (np.abs(t - np.clip(t, 0, prm["alpha"]))), float(x))
                assert v <= vb + 1e-9 * (1 + abs(vb)), ("prox", kind, x, st, v, vb)
                # 4. constructed fixed point has zero distance
                g = (u - x) / st
                d = pen.dist(np.array([u]), np.array([g]))[0]
                assert d <= 1e-6 * (1 + abs(g)), ("fixed point distance", kind, x, st, u, d)
    pen = R.RefPenalty("group", alpha=0.5, weights=np.array([1.0, 2.0]), groups=[np.array([0, 2]), np.array([1])])
    x = rng.standard_normal(3)
    u = np.zeros(3)
    for gi, G in enumerate(pen.p["groups"]):
        u[G] = pen.prox_block(x[G], 0.8, gi)[0]
    assert np.all(pen.dist(u, (u - x) / 0.8) <= 1e-9)
    assert R.slope_value(R.slope_prox(np.array([3.0, -1.0, 0.5]), np.array([1.0, 0.5, 0.1])), [1, .5, .1]) >= 0
    # 5. comparison helpers
    assert not R.close(1.0, np.inf) and R.close(np.inf, np.inf) and not R.close(np.nan, np.nan)
    assert not R.leq(np.inf, 1.0) and R.leq(1.0, np.inf) and not R.leq(np.nan, 1.0)
    assert R.maxdiff(np.array([1.0, np.inf]), np.array([1.0, np.inf])) == 0.0
    assert R.maxdiff(np.array([1.0, np.inf]), np.array([1.0, 2.0])) == np.inf
    # 6. sanitizer
    code = ("import os; os.environ['NUMBA_BOUNDSCHECK']='1'\n"
            "import numpy as np, numba\n"
            "@numba.njit\n"
            "def f(a, i):\n"
            "    return a[:-1][i]\n"
            "try:\n"
            "    f(np.arange(4.), 3); print('NO-CHECK')\n"
            "except IndexError:\n"
            "    print('CHECKED')\n")
    out = subprocess.run([sys.executable, "-c", code], capture_output=True, text=True, timeout=300).stdout
    assert "CHECKED" in out, "NUMBA_BOUNDSCHECK=1 not honoured: %r" % out
    print("selftest: reference model consistent; bounds checker honoured")


if __name__ == "__main__":
    main()
