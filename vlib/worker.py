"""Worker entry point: python -m vlib.worker <check module> <spec.json> <out.jsonl>"""
import json
import sys
import time
import traceback


def main():
    modname, spec_path, out_path = sys.argv[1:4]
    with open(spec_path) as f:
        spec = json.load(f)
    import os
    for k, v in spec.get("env", {}).items():
        os.environ[k] = str(v)
    from vlib import env  # noqa: F401  (bootstrap before skglm import)
    from vlib.runner import jdump
    import importlib
    mod = importlib.import_module("checks." + modname)
    out = open(out_path, "w")
    only = spec.get("only")

    def emit(rec):
        if only is not None and rec.get("id") != only:
            return
        out.write(jdump(rec) + "\n")
        out.flush()

    t0 = time.time()
    try:
        mod.run_shard(spec, emit)
    except BaseException:
        out.write(jdump(dict(id="shard-crash", status="inconclusive", cell=spec.get("name"),
                             obs=dict(traceback=traceback.format_exc()[-3000:]))) + "\n")
        out.flush()
        raise
    out.write(jdump(dict(_done=True, wall=time.time() - t0)) + "\n")
    out.close()


if __name__ == "__main__":
    main()
