#!/bin/sh
# Offline setup: third-party monitors (icontract, deal) beside the repository's interpreter, then oracle self-test.
set -e
cd "$(dirname "$0")"
if [ ! -d .deps/icontract ]; then
  /venv/bin/pip install --quiet --no-index --find-links /opt/veriftools/wheels --target .deps icontract deal >/dev/null 2>&1 || echo "setup: icontract/deal not installable; contract-based monitors fall back to plain wrappers"
fi
if [ -f vlib/selftest.py ]; then /venv/bin/python -m vlib.selftest; fi
