#!/usr/bin/env python3
"""Refresh the generated tables of DESIGN.md (between <!-- BEGIN x --> / <!-- END x --> markers) from known_findings.json
and seeded/*/meta.json."""
import glob, json, os, re
HERE = os.path.dirname(os.path.dirname(os.path.abspath(__file__)))
d = json.load(open(os.path.join(HERE, "known_findings.json")))
rows = ["| id | property | status | commit | what failed |", "|---|---|---|---|---|"]
for e in sorted(d["findings"], key=lambda e: (e["property"], e["id"])):
    what = re.sub(r"^fixed: property=\S+ \S+ ", "", e["what"]).replace("|", "\\|")
    rows.append("| %s | %s | %s | %s | %s |" % (e["id"], e["property"], e["status"], e.get("commit", "-"), what))
findings = "\n".join(rows)
rows = ["| seeded change | breaks | needs, to manifest | caught by (quick tier unless noted) |", "|---|---|---|---|"]
for mp in sorted(glob.glob(os.path.join(HERE, "seeded", "*", "meta.json"))):
    m = json.load(open(mp))
    rows.append("| %s | %s | %s | %s |" % (os.path.basename(os.path.dirname(mp)), m.get("property"),
                                           m.get("needs", "").replace("|", "\\|"), m.get("caught_by", "").replace("|", "\\|")))
seeded = "\n".join(rows)
p = os.path.join(HERE, "DESIGN.md")
s = open(p).read()
for name, body in (("FINDINGS", findings), ("SEEDED", seeded)):
    b, e = "<!-- BEGIN %s -->" % name, "<!-- END %s -->" % name
    if b in s:
        s = s[:s.index(b) + len(b)] + "\n" + body + "\n" + s[s.index(e):]
open(p, "w").write(s)
print("tables refreshed")
