#!/bin/sh
# tools/sweep.sh <tier> <seed...> : run every registered check for the given seeds, print one summary line each
tier=$1; shift
cd "$(dirname "$0")/.."
[ -d .deps ] || ./setup.sh >/dev/null 2>&1
for seed in "$@"; do
  for c in $(/venv/bin/python -c "import json;print(' '.join(x['property_id'] for x in json.load(open('MANIFEST.json'))['checks']))"); do
    out=$(VERIF_SEED=$seed ./check $c --tier $tier 2>&1); rc=$?
    echo "seed=$seed rc=$rc $(echo "$out" | grep -E "^C[0-9]+ tier" | head -1)"
    echo "$out" | grep -E "^(VIOLATION|INCONCLUSIVE)" | cut -c1-400
  done
done
