#!/venv/bin/python
"""Regenerate MANIFEST.json from the check modules (MANIFEST fields live next to the code they describe)."""
import glob
import importlib
import json
import os
import subprocess
import sys

HERE = os.path.dirname(os.path.dirname(os.path.abspath(__file__)))
sys.path.insert(0, HERE)
props = [json.loads(l) for l in open(os.path.join(HERE, "properties.jsonl"))]
checks, claimed = [], set()
for path in sorted(glob.glob(os.path.join(HERE, "checks", "c[0-9][0-9]_*.py"))):
    mod = importlib.import_module("checks." + os.path.basename(path)[:-3])
    if not getattr(mod, "REGISTER", True):
        continue
    pid = mod.PROPERTY
    claimed.add(pid)
    checks.append(dict(
        property_id=pid,
        quick_cmd="./check %s --tier quick" % pid,
        thorough_cmd="./check %s --tier thorough" % pid,
        evidence_file="evidence/%s.json" % pid,
        replay_cmd_template="./check %s --replay {path}" % pid,
        engine="vlib.runner",
        level_claimed=dict(category=getattr(mod, "LEVEL", "exploration"), text=mod.LEVEL_TEXT,
                           design_ref="DESIGN.md section 4, " + pid),
        level_note=mod.LEVEL_NOTE,
        technique=mod.TECHNIQUE,
    ))
hook_commits = subprocess.run(["git", "-C", "/repo", "log", "--format=%h %s", "--grep=^hooks:"],
                              capture_output=True, text=True).stdout.strip().splitlines()
na_reasons = {}
na_path = os.path.join(HERE, "tools", "not_applicable.json")
if os.path.exists(na_path):
    na_reasons = json.load(open(na_path))
m = dict(
    version=1,
    setup_cmd="./setup.sh",
    hooks=dict(
        guard="SKGLM_VERIF",
        enable=("checks export SKGLM_VERIF=1 before importing skglm (vlib/env.py); /venv holds an editable install, "
                "so /repo's current working tree is what runs and nothing needs rebuilding; numba recompiles "
                "every kernel in each worker process (no on-disk cache)"),
        baseline_off_cmd=("cd /repo && env -u SKGLM_VERIF /venv/bin/python -m pytest -ra -q -p no:cacheprovider "
                          "--timeout=900 --continue-on-collection-errors"),
        source_commits=[l.split()[0] for l in hook_commits],
        add_only=True,
    ),
    engines=[dict(name="vlib.runner", path="vlib/runner.py", serves_properties=sorted(claimed),
                  kind_free_text=("runtime monitoring: sharded subprocess workers drive the real skglm code on "
                                  "generated workloads; monitors = reference-model oracles (vlib/refmath.py), "
                                  "invariants at guarded hooks, boundary recorders, numba bounds-checking sanitizer"))],
    checks=checks,
    not_applicable=[dict(property_id=p["id"], reason=na_reasons.get(p["id"], "check not built yet (work in progress)"))
                    for p in props if p["id"] not in claimed],
    notes="Runtime monitoring of skglm; DESIGN.md explains every check. known_findings.json lists fixed/known defects.",
)
json.dump(m, open(os.path.join(HERE, "MANIFEST.json"), "w"), indent=1)
print("MANIFEST.json: %d checks, %d not_applicable" % (len(checks), len(m["not_applicable"])))
