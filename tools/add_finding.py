#!/usr/bin/env python3
"""tools/add_finding.py <property> <id> fixed <commit> <what...>   |   ... known - <what> <match-json>"""
import json, sys
p = "/verif/known_findings.json"
d = json.load(open(p))
prop, fid, status, commit, what = sys.argv[1:6]
e = dict(property=prop, id=fid, status=status)
if status == "fixed":
    e["commit"] = commit
    e["what"] = "fixed: property=%s %s %s" % (prop, commit, what)
else:
    e["what"] = what
    e["match"] = json.loads(sys.argv[6])
d["findings"] = [x for x in d["findings"] if x["id"] != fid] + [e]
json.dump(d, open(p, "w"), indent=1)
