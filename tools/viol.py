#!/usr/bin/env python3
"""tools/viol.py <PROP> field1,field2,...  — group the dumped violation records (.work/viol_<PROP>.jsonl)."""
import collections, json, sys
prop = sys.argv[1]
fields = sys.argv[2].split(",") if len(sys.argv) > 2 else ["mechanism"]
cnt = collections.Counter()
ex = {}
for line in open("/verif/.work/viol_%s.jsonl" % prop):
    r = json.loads(line)
    v = r.get("viol", {})
    key = tuple(str(v.get(f, r.get(f))) for f in fields)
    cnt[key] += 1
    ex.setdefault(key, (r["id"], v.get("detail", "")[:150]))
for k, c in cnt.most_common():
    print(c, k, ex[k])
