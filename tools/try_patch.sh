#!/bin/sh
# tools/try_patch.sh <patch.diff> <check ids...>   (env SEEDS="0 1" TIER=quick)
# applies the patch to /repo, runs the checks, and ALWAYS restores /repo.
patch=$1; shift
cd /verif
git -C /repo diff --quiet || { echo "/repo working tree not clean"; exit 3; }
git -C /repo apply "$patch" || { echo "patch does not apply"; exit 3; }
trap 'git -C /repo checkout -- . ; git -C /repo clean -fdq skglm' EXIT INT TERM
for seed in ${SEEDS:-0}; do
  for c in "$@"; do
    out=$(VERIF_SEED=$seed ./check $c --tier ${TIER:-quick} 2>&1); rc=$?
    echo "seed=$seed rc=$rc $(echo "$out" | grep -E "^C[0-9]+ tier" | head -1)"
    echo "$out" | grep -E "^(VIOLATION|INCONCLUSIVE)" | cut -c1-330 | head -4
  done
done
