#!/venv/bin/python
"""tools/seed_intake.py <src_dir> <seed_id> <property> <needs-text> <check ids...>
Confirms a seeded regression in a fresh scratch worktree (demo passes clean / fails patched, repository tests pass with
the patch), stores it under /verif/seeded/<seed_id>/, then applies it to /repo, runs the given checks (quick, seeds 0 1),
restores /repo and records which checks caught it in meta.json."""
import json, os, shutil, subprocess, sys, tempfile
src, sid, prop, needs = sys.argv[1:5]
checks = sys.argv[5:]
V = "/verif"
def sh(cmd, **kw):
    return subprocess.run(cmd, shell=True, capture_output=True, text=True, **kw)
MODE = os.environ.get("INTAKE_MODE", "all")   # confirm | checks | all
dst = os.path.join(V, "seeded", sid)
if MODE == "checks":
    meta = json.load(open(os.path.join(dst, "meta.json")))
    results = {}
    out = sh("SEEDS='%s' %s/tools/try_patch.sh %s/patch.diff %s" % (os.environ.get("SEEDS", "0"), V, dst, " ".join(checks)), timeout=14400).stdout
    print(out)
    for line in out.splitlines():
        if line.startswith("seed="):
            parts = line.split()
            results.setdefault(parts[2], {})[parts[0][5:]] = int(parts[1][3:])
    allr = dict(meta.get("checks_run", {}))
    allr.update(results)
    caught = sorted(c for c, r in allr.items() if any(v == 1 for v in r.values()))
    meta.update(checks_run=allr, caught_by=", ".join(caught) if caught else "(not caught)",
                missed_by=sorted(c for c, r in allr.items() if all(v != 1 for v in r.values())))
    json.dump(meta, open(os.path.join(dst, "meta.json"), "w"), indent=1)
    print("CHECKED", sid, "caught_by:", meta["caught_by"], "missed:", meta["missed_by"])
    sys.exit(0)
wt = tempfile.mkdtemp(prefix="conf_", dir="/tmp")
os.rmdir(wt)
assert sh("git -C /repo worktree add -q %s HEAD" % wt).returncode == 0
env = "SKGLM_SRC=%s PYTHONPATH=/tmp/mut/shim" % wt
ran = []
try:
    r0 = sh("%s /venv/bin/python %s/demo.py" % (env, src), cwd=wt, timeout=7200)
    ran.append("demo on clean tree: exit %d" % r0.returncode)
    ap = sh("git -C %s apply %s/patch.diff" % (wt, src))
    assert ap.returncode == 0, ap.stderr
    r1 = sh("%s /venv/bin/python %s/demo.py" % (env, src), cwd=wt, timeout=7200)
    ran.append("demo on patched tree: exit %d" % r1.returncode)
    rt = sh("/tmp/mut/run_tests.py %s" % wt, timeout=3600)
    ran.append("repository tests on patched tree: %s" % rt.stdout.strip().splitlines()[0] if rt.stdout.strip() else "no output")
    ok = r0.returncode == 0 and r1.returncode == 1 and rt.returncode == 0
finally:
    sh("git -C /repo worktree remove --force %s" % wt)
print("\n".join(ran))
if not ok:
    print("NOT CONFIRMED", sid)
    print(r0.stdout[-500:], r1.stdout[-500:], rt.stdout[-800:])
    sys.exit(1)
dst = os.path.join(V, "seeded", sid)
os.makedirs(dst, exist_ok=True)
for f in ("patch.diff", "demo.py", "NOTE.md"):
    if os.path.exists(os.path.join(src, f)):
        shutil.copy(os.path.join(src, f), os.path.join(dst, f))
results = {}
if checks and MODE == "all":
    out = sh("SEEDS='%s' %s/tools/try_patch.sh %s/patch.diff %s" % (os.environ.get("SEEDS", "0"), V, dst, " ".join(checks)), timeout=7200).stdout
    print(out)
    for line in out.splitlines():
        if line.startswith("seed="):
            parts = line.split()
            seed, rc, cid = parts[0][5:], parts[1][3:], parts[2]
            results.setdefault(cid, {})[seed] = int(rc)
caught = sorted(c for c, r in results.items() if any(v == 1 for v in r.values()))
missed = sorted(c for c, r in results.items() if all(v != 1 for v in r.values()))
meta = dict(id=sid, property=prop, needs=needs, source="independent sub-agent given only the property text and a scratch worktree",
            confirmed=ran, checks_run={c: r for c, r in results.items()}, caught_by=", ".join(caught) if caught else "(not caught)",
            missed_by=missed, demo_last_lines=r1.stdout.strip().splitlines()[-3:])
json.dump(meta, open(os.path.join(dst, "meta.json"), "w"), indent=1)
print("CONFIRMED", sid, "caught_by:", meta["caught_by"], "missed:", missed)
