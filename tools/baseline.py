#!/venv/bin/python
"""Run the repository's pinned test-suite with the hook guard OFF and compare with BASELINE.json stable_pass."""
import json, os, subprocess, sys, tempfile, xml.etree.ElementTree as ET
base = json.load(open("/root/.vp/BASELINE.json"))
out = tempfile.mktemp(suffix=".xml")
env = {k: v for k, v in os.environ.items() if k != "SKGLM_VERIF"}
subprocess.run(["/venv/bin/python", "-m", "pytest", "-q", "-p", "no:cacheprovider", "--timeout=900", "-n", "8",
                "--continue-on-collection-errors", "--junitxml=" + out], cwd="/repo", env=env,
               stdout=subprocess.DEVNULL, stderr=subprocess.DEVNULL)
passed = set()
for tc in ET.parse(out).getroot().iter("testcase"):
    if not any(ch.tag in ("failure", "error", "skipped") for ch in tc):
        passed.add(tc.get("classname") + "::" + tc.get("name"))
os.remove(out)
missing = [t for t in base["stable_pass"] if t not in passed]
newly = [t for t in passed if t in base["always_fail"]]
print("stable_pass: %d/%d pass; newly passing former always_fail: %d" % (
    len(base["stable_pass"]) - len(missing), len(base["stable_pass"]), len(newly)))
for t in missing:
    print("MISSING", t)
sys.exit(1 if missing else 0)
